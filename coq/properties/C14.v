(* C14 — Reactive accessors trigger reactions exactly as documented.  Statements only; proofs in proofs/AccessorSpec.v.
   `act P o a w` is the model of the API call made at the moment a system body (or a top-level caller) issues action a;
   `triggers_of cs` are the trigger commands among the commands it queued. *)
From Cobweb Require Import Machine.
From CobwebProofs Require Import AccessorSpec TablesSpec.

Theorem get_mut_one_trigger : forall (P : program) (o : occ) (c e v : N) (w : world),
  let e' := resolve w e in
  let w' := fst (act P o (AMutate c e v) w) in
  let cs := snd (act P o (AMutate c e v) w) in
  match comp_value c e' w with
  | Some _ => triggers_of cs = [CSchedMut c e'] /\ comp_value c e' w' = Some v
  | None => triggers_of cs = [] /\ comps w' = comps w
  end.
Proof. exact get_mut_triggers_once. Qed.

Theorem set_if_neq_exact : forall (P : program) (o : occ) (c e v : N) (w : world),
  let e' := resolve w e in
  let w' := fst (act P o (ASetIfNeq c e v) w) in
  let cs := snd (act P o (ASetIfNeq c e v) w) in
  match comp_value c e' w with
  | Some old =>
      if N.eqb old v then triggers_of cs = [] /\ comps w' = comps w /\ last (log w') (EvMark o) = EvRet o RNone
      else triggers_of cs = [CSchedMut c e'] /\ comp_value c e' w' = Some v /\ last (log w') (EvMark o) = EvRet o (RVal old)
  | None => triggers_of cs = [] /\ comps w' = comps w
  end.
Proof. exact set_if_neq_spec. Qed.

Theorem noreact_never_triggers : forall (P : program) (o : occ) (c e v : N) (w : world),
  triggers_of (snd (act P o (AGetNoReact c e v) w)) = [].
Proof. exact get_noreact_never_triggers. Qed.
Theorem read_never_triggers : forall (P : program) (o : occ) (c e : N) (w : world),
  triggers_of (snd (act P o (ARead c e) w)) = [] /\ comps (fst (act P o (ARead c e) w)) = comps w.
Proof. exact AccessorSpec.read_never_triggers. Qed.

Theorem res_get_mut_one_trigger : forall (P : program) (o : occ) (r : N) (w : world),
  triggers_of (snd (act P o (ATrigRes r) w)) = [CTrigRes r].
Proof. exact res_get_mut_triggers_once. Qed.
Theorem res_set_if_neq_exact : forall (P : program) (o : occ) (r v : N) (w : world),
  let w' := fst (act P o (ASetResIfNeq r v) w) in
  let cs := snd (act P o (ASetResIfNeq r v) w) in
  if N.eqb (res_value r w) v then triggers_of cs = [] /\ resvals w' = resvals w
  else triggers_of cs = [CTrigRes r] /\ res_value r w' = v.
Proof. exact res_set_if_neq_spec. Qed.
Theorem res_noreact_never_triggers : forall (P : program) (o : occ) (r v : N) (w : world),
  triggers_of (snd (act P o (AResNoReact r v) w)) = [].
Proof. exact AccessorSpec.res_noreact_never_triggers. Qed.

Theorem explicit_broadcast_one_trigger : forall (P : program) (o : occ) (ty p : N) (w : world),
  triggers_of (snd (act P o (ABroadcast ty p) w)) = [CBroadcast ty p].
Proof. exact broadcast_triggers_once. Qed.
Theorem explicit_entity_event_one_trigger : forall (P : program) (o : occ) (ty e p : N) (w : world),
  triggers_of (snd (act P o (AEntityEvent ty e p) w)) = [CEntityEvent ty (resolve w e) p].
Proof. exact entity_event_triggers_once. Qed.

(* insert: what is queued, what try_insert does when applied, and that the scheduling command carries a trigger key
   exactly when the component is on a live entity (with C01: keyless means no reaction at all) *)
Theorem insert_queues_pair : forall (P : program) (o : occ) (c e v : N) (w : world),
  snd (act P o (AInsert c e v) w) =
  if is_alive (resolve w e) w then [CMark o; CTryInsertReact c (resolve w e) v; CSchedIns c (resolve w e)] else [CMark o].
Proof. exact insert_queues. Qed.
Theorem insert_applied : forall (P : program) (c : N) (e : ent) (v : N) (w : world),
  let w1 := fst (apply_prim P (CTryInsertReact c e v) w) in
  snd (apply_prim P (CTryInsertReact c e v) w) = [] /\
  match is_alive e w with
  | true => comp_value c e w1 = Some v /\ (forall c0 e0, (c0, e0) <> (c, e) -> alookup2 c0 e0 (comps w1) = alookup2 c0 e0 (comps w))
  | false => w1 = w
  end.
Proof. exact insert_triggers_iff_inserted. Qed.
Theorem insertion_reaction_iff_component_present : forall (c : N) (e : ent) (w : world),
  trigger_key (CSchedIns c e) w = match comp_value c e w with Some _ => Some (KInsertion c e) | None => None end.
Proof. intros c e w. unfold trigger_key, comp_value. destruct (is_alive e w); [destruct (alookup2 c e (comps w))|]; reflexivity. Qed.
Theorem no_key_no_reaction : forall (P : program) (c : N) (e : ent) (w : world),
  trigger_key (CSchedIns c e) w = None -> snd (apply_prim P (CSchedIns c e) w) = [].
Proof.
  intros P c e w H. unfold trigger_key in H. cbn [apply_prim].
  destruct (is_alive e w && match alookup2 c e (comps w) with Some _ => true | None => false end); [discriminate H|reflexivity].
Qed.

Check set_if_neq_exact.
Check insertion_reaction_iff_component_present : forall (c : N) (e : ent) (w : world),
  trigger_key (CSchedIns c e) w = match comp_value c e w with Some _ => Some (KInsertion c e) | None => None end.

(* non-vacuity: an entity with a component; set_if_neq with an equal and with a different value *)
Definition ex_world : world := (init_world <| alive := [1] |> <| bound := [1] |> <| comps := [(0, 1, 5)] |>).
Definition ex_prog : program := mkProgram [] [] [] [] [1] [].
Example ex_equal : triggers_of (snd (act ex_prog (OTop 0 0) (ASetIfNeq 0 1 5) ex_world)) = [].
Proof. vm_compute. reflexivity. Qed.
Example ex_differs : triggers_of (snd (act ex_prog (OTop 0 0) (ASetIfNeq 0 1 6) ex_world)) = [CSchedMut 0 1].
Proof. vm_compute. reflexivity. Qed.
(* the D2 witness: the entity died between queueing and applying the insert *)
Example ex_insert_on_dead : trigger_key (CSchedIns 0 1) (fst (apply_prim ex_prog (CTryInsertReact 0 1 7) (despawn 1 ex_world))) = None.
Proof. vm_compute. reflexivity. Qed.

Print Assumptions get_mut_one_trigger.
Print Assumptions set_if_neq_exact.
Print Assumptions noreact_never_triggers.
Print Assumptions read_never_triggers.
Print Assumptions res_get_mut_one_trigger.
Print Assumptions res_set_if_neq_exact.
Print Assumptions res_noreact_never_triggers.
Print Assumptions explicit_broadcast_one_trigger.
Print Assumptions explicit_entity_event_one_trigger.
Print Assumptions insert_queues_pair.
Print Assumptions insert_applied.
Print Assumptions insertion_reaction_iff_component_present.
Print Assumptions no_key_no_reaction.
