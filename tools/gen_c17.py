#!/usr/bin/env python3
"""Generator of syscall call trees (C17): one case per line, nodes `id=kind:fields:children`, `top=ids`."""
import random, sys

def gen_line(rng):
    nodes = {}
    next_id = [0]
    spawned = []
    nsp = [0]
    reentrant = rng.random() < 0.25      # allow same-key re-entrancy in a quarter of the cases
    def mk(depth, busy):
        i = next_id[0]; next_id[0] += 1
        k = rng.choices(['sc', 'nm', 'nd', 'sy', 'sp', 'ds'], weights=[4, 4, 2.5, 4, 1.5, 0.7])[0]
        if k == 'sp' or (k in ('sy', 'ds') and not spawned):
            nsp[0] += 1; sid = 10 + nsp[0]; spawned.append(sid)
            nodes[i] = f'sp:{sid}:{rng.randint(0, 2)}'; return i
        if k == 'ds':
            nodes[i] = f'ds:{rng.choice(spawned)}'; return i
        nk = 0 if depth >= 3 else rng.choice([0, 0, 1, 1, 2, 3])
        if k == 'sc':
            t = rng.randint(0, 2); key = ('sc', t)
        elif k in ('nm', 'nd'):
            # nd = named_syscall_direct: same key space as nm (an error unless an earlier nm call cached the system)
            t = rng.randint(0, 2); name = rng.randint(1, 2); key = ('nm', name, t)
        else:
            sid = rng.choice(spawned + ([99] if rng.random() < 0.05 else [])); key = ('sy', sid)
        if key in busy and not reentrant and key[0] != 'sy':
            # avoid same-key re-entrancy: pick a fresh type-less variant by turning the node into a spawned call
            if spawned: sid = rng.choice(spawned); key = ('sy', sid); k = 'sy'
        kids = [mk(depth + 1, busy | {key}) for _ in range(nk)]
        ch = ','.join(map(str, kids))
        v = rng.randint(0, 9)
        if k == 'sc': nodes[i] = f'sc:{key[1]}:{v}:{ch}'
        elif k in ('nm', 'nd'): nodes[i] = f'{k}:{key[1]}:{key[2]}:{v}:{ch}'
        else: nodes[i] = f'sy:{key[1]}:{v}:{ch}'
        return i
    top = [mk(0, frozenset()) for _ in range(rng.randint(2, 7))]
    return ' '.join(f'{i}={nodes[i]}' for i in sorted(nodes)) + ' top=' + ','.join(map(str, top))

if __name__ == '__main__':
    seed, count, out = int(sys.argv[1]), int(sys.argv[2]), sys.argv[3]
    rng = random.Random(seed)
    open(out, 'w').write('\n'.join(gen_line(rng) for _ in range(count)) + '\n')
