#!/bin/bash
# c1.sh <file.v> [timeout]: compile one proof file, show first error
cd /verif/coq && timeout ${2:-200} coqc -Q theories Cobweb -Q proofs CobwebProofs -Q properties CobwebProps $1 2>&1 | grep -v "^Closed\|^     :\|^[a-z_A-Z0-9]*$" | head -${3:-45}; echo "rc=${PIPESTATUS[0]}"
