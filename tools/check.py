#!/usr/bin/env python3
"""check.py <Cnn> [--tier quick|thorough] [--replay FILE]

Decides one property for /repo's current working tree:
  1. hygiene of the Coq development (no Admitted/Axiom/..., statement pins present)
  2. proof obligations: `make` of the Coq project (full .vo), Print Assumptions of the property's theorems
  3. rebuild of the harness against /repo (hooks on) and of the extracted model
  4. correspondence: corpus + generated programs, model log vs implementation log under the property's projection
  5. monitors over the implementation logs (model-free oracles for the property)
  6. verdict, evidence/<Cnn>.json
Exit 0 = held on everything explored; exit 1 + "VIOLATION property=<id> replay=<path>" otherwise.
"""
import json, os, re, subprocess, sys, time, hashlib, shutil, glob

ROOT = os.path.dirname(os.path.dirname(os.path.abspath(__file__)))
sys.path.insert(0, os.path.join(ROOT, 'tools'))
import gen as genmod
import monitors
import props

COQ = os.path.join(ROOT, 'coq')
HARNESS = os.path.join(ROOT, 'harness')
MODEL = os.path.join(ROOT, 'model')
WORK = os.path.join(ROOT, 'work')
CORPUS = os.path.join(ROOT, 'corpus')
REPLAYS = os.path.join(ROOT, 'replays')
EVID = os.path.join(ROOT, 'evidence')

ENV = dict(os.environ, CARGO_NET_OFFLINE='true', RUSTFLAGS='--cfg bevy_cobweb_verif')

class Broken(Exception):
    """the machinery itself could not run (not a verdict about the property)"""

class Unproved(Exception):
    """a proof obligation of the property no longer checks: the property is no longer shown to hold"""

def sh(cmd, cwd=None, timeout=3600, env=None):
    p = subprocess.run(cmd, cwd=cwd, shell=isinstance(cmd, str), stdout=subprocess.PIPE, stderr=subprocess.STDOUT,
                       timeout=timeout, env=env or ENV, text=True)
    return p.returncode, p.stdout

# ---------------------------------------------------------------------------------------------------------------
FORBIDDEN = re.compile(r'\b(Admitted|admit|Axiom|Axioms|Parameter|Parameters|Conjecture|Hypothesis|Variable|Abort)\b|Unset\s+Guard|bypass_check|type-in-type|impredicative-set|Unset\s+Universe|Unset\s+Positivity|Admit\s+Obligations')
SECTION_OK = re.compile(r'^\s*(Variable|Hypothesis|Context)\b')

def strip_comments(text):
    out, depth, i = [], 0, 0
    while i < len(text):
        if text.startswith('(*', i): depth += 1; i += 2; continue
        if text.startswith('*)', i) and depth > 0: depth -= 1; i += 2; continue
        if depth == 0: out.append(text[i])
        elif text[i] == '\n': out.append('\n')
        i += 1
    return ''.join(out)

def hygiene():
    """forbidden vernacular anywhere in the development; Variable/Hypothesis allowed only inside a Section"""
    problems = []
    for f in sorted(glob.glob(os.path.join(COQ, '**', '*.v'), recursive=True)):
        text = strip_comments(open(f).read())
        depth = 0
        for ln, line in enumerate(text.split('\n'), 1):
            if re.match(r'^\s*Section\b', line): depth += 1
            if re.match(r'^\s*End\b', line) and depth > 0: depth -= 1
            for m in FORBIDDEN.finditer(line):
                w = m.group(0)
                if w in ('Variable', 'Hypothesis') and depth > 0: continue
                problems.append(f'{os.path.relpath(f, ROOT)}:{ln}: {w}')
    return problems

def coq_build():
    mk, cp = os.path.join(COQ, 'Makefile'), os.path.join(COQ, '_CoqProject')
    if not os.path.exists(mk) or os.path.getmtime(cp) > os.path.getmtime(mk):
        rc, out = sh('coq_makefile -f _CoqProject -o Makefile', cwd=COQ)
        if rc != 0: raise Broken('coq_makefile failed: ' + out[-500:])
    rc, out = sh('timeout 3000 make -j16', cwd=COQ, timeout=3100)
    return rc, out

def assumptions(cid, theorems):
    """Print Assumptions of every theorem of the property, via a throw-away file compiled against the built .vo"""
    os.makedirs(WORK, exist_ok=True)
    f = os.path.join(WORK, f'Assum_{cid}.v')
    with open(f, 'w') as fh:
        fh.write(f'From CobwebProps Require Import {cid}.\n')
        for t in theorems:
            fh.write(f'Print Assumptions {cid}.{t}.\n')
    rc, out = sh(f'coqc -Q {COQ}/theories Cobweb -Q {COQ}/proofs CobwebProofs -Q {COQ}/properties CobwebProps {f}', cwd=WORK, timeout=600)
    for ext in ('.vo', '.vok', '.vos', '.glob'):
        try: os.remove(f[:-2] + ext)
        except OSError: pass
    return rc, out

def build_harness():
    shutil.copy('/repo/Cargo.lock', os.path.join(HARNESS, 'Cargo.lock'))
    rc, out = sh('timeout 3000 cargo build --offline', cwd=HARNESS, timeout=3100)
    return rc, out

def build_model():
    src = [os.path.join(MODEL, x) for x in ('model.ml', 'model.mli', 'driver.ml')]
    exe = os.path.join(MODEL, 'model_run')
    if not os.path.exists(exe) or any(os.path.getmtime(s) > os.path.getmtime(exe) for s in src):
        rc, out = sh('ocamlfind ocamlopt -package str -w -a -O2 model.mli model.ml driver.ml -o model_run', cwd=MODEL)
        if rc != 0: raise Broken('ocaml build failed: ' + out[-800:])

# ---------------------------------------------------------------------------------------------------------------
def read_log(path):
    try:
        return open(path).read().split('\n')
    except OSError:
        return ['<missing>']

def run_programs(files, shard=400):
    """run harness and model over the program files (written next to them as .impl.log / .model.log)"""
    hexe = os.path.join(HARNESS, 'target', 'debug', 'harness')
    mexe = os.path.join(MODEL, 'model_run')
    procs = []
    for i in range(0, len(files), shard):
        chunk = files[i:i + shard]
        procs.append(subprocess.Popen([hexe] + chunk, stdout=subprocess.DEVNULL, stderr=subprocess.DEVNULL))
        procs.append(subprocess.Popen([mexe] + chunk, stdout=subprocess.DEVNULL, stderr=subprocess.DEVNULL))
        if len(procs) >= 16:
            for p in procs: p.wait(timeout=1200)
            procs = []
    for p in procs: p.wait(timeout=1200)

def line_engine(cid, P, tier, seed, replay, t0, obligations, discharged, assum_report, harness_ok, hout, evidence_path):
    """correspondence for the standalone models (C10 auto-despawn, C17 syscall): one operation sequence per line,
    model and implementation print one result line per sequence"""
    eng = P['engine']
    wdir = os.path.join(WORK, cid); shutil.rmtree(wdir, ignore_errors=True); os.makedirs(wdir)
    f = os.path.join(wdir, 'cases.ops')
    lines = []
    if replay:
        lines = [l for l in open(replay).read().split('\n') if l.strip() and not l.startswith('#')]
    else:
        cp = os.path.join(CORPUS, f'{eng}.ops')
        if os.path.exists(cp): lines += [l for l in open(cp).read().split('\n') if l.strip() and not l.startswith('#')]
        n = P['quick_n'] if tier == 'quick' else P['thorough_n']
        import importlib
        g = importlib.import_module('gen_' + eng)
        import random as _r
        rng = _r.Random(seed * 7919 + 13)
        lines += [g.gen_line(rng) for _ in range(n)]
    open(f, 'w').write('\n'.join(lines) + '\n')
    violations = []
    stats = {'programs': len(lines), 'disagreements': 0, 'ops': sum(len(l.split()) for l in lines)}
    kinds = {}
    for l in lines:
        for w in l.split():
            k = w.split('=', 1)[1].split(':', 1)[0] if '=' in w and not w.startswith('top=') else ''.join(ch for ch in w if ch.isalpha())
            if k: kinds[k] = kinds.get(k, 0) + 1
    samples = []
    if not harness_ok:
        rp = os.path.join(REPLAYS, f'{cid}-harness-build.txt')
        open(rp, 'w').write('correspondence broken: the harness no longer builds against /repo\n\n' + hout[-3000:])
        violations.append(('no-input', rp, 'harness build failed'))
    else:
        subprocess.run([os.path.join(HARNESS, 'target', 'debug', 'harness'), eng, f], stdout=subprocess.DEVNULL, stderr=subprocess.DEVNULL, timeout=1200)
        subprocess.run([os.path.join(MODEL, 'model_run'), '-' + eng, f], stdout=subprocess.DEVNULL, stderr=subprocess.DEVNULL, timeout=1200)
        impl = read_log(f + '.impl.log'); model = read_log(f + '.model.log')
        first = None
        for i, l in enumerate(lines):
            a = impl[i] if i < len(impl) else '<missing>'; b = model[i] if i < len(model) else '<missing>'
            if a != b:
                stats['disagreements'] += 1
                if first is None: first = (i, l, a, b)
            elif len(samples) < 3 and len(l.split()) > 8:
                samples.append({'ops': l, 'result': a})
        if first is not None:
            i, l, a, b = first
            rp = os.path.join(REPLAYS, f'{cid}-{seed}.ops')
            open(rp, 'w').write(l + '\n')
            # first differing step
            sa, sb = a.split(' | '), b.split(' | ')
            k = next((j for j, (x, y) in enumerate(zip(sa, sb)) if x != y), min(len(sa), len(sb)))
            ops = l.split()
            open(rp + '.why', 'w').write(f'correspondence {cid} broken on this operation sequence at step {k} (`{ops[k] if k < len(ops) else "?"}`):\n  implementation: {sa[k] if k < len(sa) else "<end>"}\n  model:          {sb[k] if k < len(sb) else "<end>"}\n'
                                         'the observation (live entities / returned values after every operation) is fully determined by the theorems of ' + cid + ', so this sequence is a failing input\n')
            violations.append(('input', rp, f'step {k}: impl `{sa[k] if k < len(sa) else "<end>"}` vs model `{sb[k] if k < len(sb) else "<end>"}`'))
    stress = None
    if eng == 'c10' and tier == 'thorough' and harness_ok and not replay:
        # free-running threads: workers drop clones while the main thread collects (model-free end-of-round oracle)
        p = subprocess.run([os.path.join(HARNESS, 'target', 'debug', 'harness'), 'c10', 'stress', '3000', str(seed)],
                           stdout=subprocess.PIPE, stderr=subprocess.DEVNULL, timeout=1200, text=True)
        stress = (p.stdout or '').strip().split('\n')[-1]
        if not stress.startswith('stress ok'):
            rp = os.path.join(REPLAYS, f'{cid}-stress-{seed}.txt')
            open(rp, 'w').write(f'harness c10 stress 3000 {seed}\n{stress}\n(thread schedule dependent: re-run the command; the round and the violated clause are named above)\n')
            violations.append(('input', rp, stress))
    wall = time.time() - t0
    ev = {'property_id': cid, 'tier': tier, 'seed': seed, 'level': 'proof',
          'coverage': {'obligations': len(obligations), 'discharged': discharged,
                       'checker_cmd': 'make -C /verif/coq -j16 (coqc 8.16.1, full .vo) ; coqc Print Assumptions per theorem',
                       'trusted_base': props.TRUSTED_BASE, 'theorems': obligations, 'assumptions': assum_report,
                       'concurrent_stress': stress,
                       'programs': stats['programs'], 'disagreements_checked': stats['programs'], 'disagreements': stats['disagreements'],
                       'traces_validated_against_impl': stats['programs'] - stats['disagreements'],
                       'evaluations': stats['programs'], 'distinct_nontrivial': len(set(lines)),
                       'rule': f'corpus + seeded generator tools/gen_{eng}.py (operation sequences); distinct = textually distinct sequences',
                       'distribution': {'total_ops': stats['ops'], 'op_kinds': kinds}, 'samples': samples or [{'note': 'none'}], 'exhaustive': False},
          'assumptions': P['assumes'], 'wall_s': round(wall, 2), 'violations': len(violations)}
    json.dump(ev, open(evidence_path, 'w'), indent=1)
    if violations:
        kind, rp, note = violations[0]
        print(f'# {note}')
        print(f'VIOLATION property={cid} replay={rp}' + (' no-failing-input-found' if kind == 'no-input' else ''))
        sys.exit(1)
    print(f'OK {cid}: {discharged}/{len(obligations)} theorems, {stats["programs"]} sequences, 0 disagreements, {wall:.1f}s')
    sys.exit(0)

def main():
    args = sys.argv[1:]
    cid = args[0]
    tier = 'quick'
    replay = None
    if '--tier' in args: tier = args[args.index('--tier') + 1]
    if '--replay' in args: replay = args[args.index('--replay') + 1]
    tier = os.environ.get('VERIF_TIER', tier)
    seed = int(os.environ.get('VERIF_SEED', '1'))
    P = props.PROPS[cid]
    t0 = time.time()
    os.makedirs(EVID, exist_ok=True); os.makedirs(REPLAYS, exist_ok=True); os.makedirs(WORK, exist_ok=True)
    evidence_path = os.path.join(EVID, f'{cid}.json')

    violations = []      # (kind, replay_path, note)
    known_hits = []
    notes = []

    # ---- 1. hygiene
    hyg = hygiene()
    if hyg:
        raise Unproved('forbidden vernacular in the Coq development: ' + '; '.join(hyg[:5]))

    # ---- 2. proofs
    rc, out = coq_build()
    proof_ok = rc == 0
    obligations = P['theorems']
    discharged = 0
    assum_report = {}
    broken_theorems = []
    if not proof_ok:
        broken_theorems = ['coq build failed: ' + out[-1500:]]
    else:
        rc, aout = assumptions(cid, obligations)
        if rc != 0:
            proof_ok = False
            broken_theorems = ['Print Assumptions failed: ' + aout[-800:]]
        else:
            # one block per theorem: "Closed under the global context" or "Axioms:" list
            blocks = re.split(r'(?=Closed under the global context|Axioms:)', aout)
            blocks = [b for b in blocks if b.startswith('Closed') or b.startswith('Axioms')]
            for t, b in zip(obligations, blocks):
                if b.startswith('Closed'):
                    assum_report[t] = []
                    discharged += 1
                else:
                    ax = re.findall(r'^\s*([A-Za-z_][\w\.]*)\s*:', b, re.M)
                    assum_report[t] = ax
                    bad = [a for a in ax if a not in props.AXIOM_ALLOWLIST]
                    if bad: broken_theorems.append(f'{t} depends on non-allowlisted axioms {bad}')
                    else: discharged += 1
            if len(blocks) != len(obligations):
                proof_ok = False
                broken_theorems.append(f'expected {len(obligations)} assumption reports, got {len(blocks)}')
            if broken_theorems: proof_ok = False
    if not proof_ok:
        raise Unproved('the Coq development does not check (the theorems do not mention /repo, so this comes from an edit under /verif/coq): ' + ' | '.join(broken_theorems)[:1500])
    coqchk_report = None
    if tier == 'thorough':
        # independent re-check of the property's compiled file and everything it depends on
        cmd = f'timeout 2400 coqchk -o -silent -Q {COQ}/theories Cobweb -Q {COQ}/proofs CobwebProofs -Q {COQ}/properties CobwebProps CobwebProps.{cid}'
        rc, cout = sh(cmd, cwd=COQ, timeout=2500)
        if rc != 0 and 'Axioms' not in cout:
            # killed from outside (memory pressure from unrelated jobs was observed once): one retry
            time.sleep(10)
            rc, cout = sh(cmd, cwd=COQ, timeout=2500)
        m = re.search(r'\* Axioms:\s*(.*?)\n\s*\n', cout + '\n\n', re.S)
        coqchk_report = m.group(1).strip() if m else 'unparsed'
        if rc != 0 or coqchk_report != '<none>':
            raise Unproved('coqchk does not accept the development or reports axioms: ' + cout[-800:])
        assum_report['__coqchk__'] = ['coqchk -o: Axioms: ' + coqchk_report]

    # ---- 3. builds against /repo
    rc, hout = build_harness()
    harness_ok = rc == 0
    build_model()

    # ---- 4. correspondence (engine-specific for the standalone models)
    if P.get('engine') in ('c10', 'c17'):
        return line_engine(cid, P, tier, seed, replay, t0, obligations, discharged, assum_report, harness_ok, hout, evidence_path)

    # ---- 4. programs
    wdir = os.path.join(WORK, cid)
    shutil.rmtree(wdir, ignore_errors=True)
    os.makedirs(wdir)
    files = []
    if replay:
        dst = os.path.join(wdir, 'replay.prog'); shutil.copy(replay, dst); files.append(dst)
    else:
        for f in sorted(glob.glob(os.path.join(CORPUS, '*.prog'))):
            dst = os.path.join(wdir, 'corpus-' + os.path.basename(f)); shutil.copy(f, dst); files.append(dst)
        n = P['quick_n'] if tier == 'quick' else P['thorough_n']
        profs = P['profiles']
        per = max(1, n // len(profs))
        for prof in profs:
            for i in range(per):
                dst = os.path.join(wdir, f'{prof}-{seed}-{i:05d}.prog')
                open(dst, 'w').write(genmod.generate(prof, seed, i))
                files.append(dst)

    stats = {'programs': 0, 'disagreements': 0, 'monitor_failures': 0, 'panics': 0,
             'with_postpone': 0, 'with_multi_postpone': 0, 'with_abort': 0, 'with_gc_despawn': 0, 'vacuous': 0,
             'runs': 0, 'drops': 0, 'action_kinds': {}}
    samples = []
    first_disagreement = None
    first_monitor_failure = None
    if not harness_ok:
        rp = os.path.join(REPLAYS, f'{cid}-harness-build.txt')
        open(rp, 'w').write('correspondence broken: the harness (public API + verification hooks) no longer builds against /repo\n\n' + hout[-3000:])
        violations.append(('no-input', rp, 'harness build failed'))
    else:
        run_programs(files)
        proj = P['projection']
        for f in files:
            impl = read_log(f + '.impl.log'); model = read_log(f + '.model.log')
            stats['programs'] += 1
            monitors.accumulate_stats(stats, open(f).read(), impl)
            pi, pm = props.project(proj, impl), props.project(proj, model)
            disagree = pi != pm
            mon = monitors.run_monitor(cid, open(f).read(), impl)
            if any(l.startswith('panic') for l in impl): stats['panics'] += 1
            if len(samples) < 3 and not disagree and mon is None and len(impl) > 15:
                samples.append({'program': open(f).read().split('\n'), 'projected_log_head': pi[:12], 'log_lines': len(impl)})
            if mon is not None:
                stats['monitor_failures'] += 1
                if first_monitor_failure is None: first_monitor_failure = (f, mon)
            if disagree:
                stats['disagreements'] += 1
                if first_disagreement is None:
                    k = next((i for i, (a, b) in enumerate(zip(pi, pm)) if a != b), min(len(pi), len(pm)))
                    first_disagreement = (f, k, pi[k] if k < len(pi) else '<end>', pm[k] if k < len(pm) else '<end>')

        known = props.load_known_findings()
        if first_monitor_failure is not None:
            f, why = first_monitor_failure
            kf = props.match_known(known, cid, open(f).read(), why)
            if kf:
                known_hits.append(kf)
            else:
                rp = os.path.join(REPLAYS, f'{cid}-{seed}.prog')
                shutil.copy(f, rp)
                open(rp + '.why', 'w').write(f'monitor for {cid} failed on the implementation log:\n{why}\n')
                violations.append(('input', rp, why))
        elif first_disagreement is not None:
            f, k, a, b = first_disagreement
            rp = os.path.join(REPLAYS, f'{cid}-{seed}.prog')
            shutil.copy(f, rp)
            determined = P.get('determined', False)
            open(rp + '.why', 'w').write(
                f'correspondence {cid} (projection {proj}) broken at projected line {k}:\n  implementation: {a}\n  model:          {b}\n'
                + ('the projection is fully determined by the property (theorem(s) ' + ', '.join(obligations) + '), so this program is a failing input\n'
                   if determined else 'no monitor failure was found on any explored program\n'))
            violations.append(('input' if determined else 'no-input', rp, f'projected line {k}: impl `{a}` vs model `{b}`'))

    # ---- 6. evidence + verdict
    wall = time.time() - t0
    ev = {
        'property_id': cid, 'tier': tier, 'seed': seed, 'level': 'proof',
        'coverage': {
            'obligations': len(obligations), 'discharged': discharged,
            'checker_cmd': 'make -C /verif/coq -j16 (coqc 8.16.1, full .vo) ; coqc Print Assumptions per theorem',
            'trusted_base': props.TRUSTED_BASE,
            'theorems': obligations, 'assumptions': assum_report,
            'programs': stats['programs'], 'disagreements_checked': stats['programs'],
            'disagreements': stats['disagreements'], 'monitor_failures': stats['monitor_failures'],
            'traces_validated_against_impl': stats['programs'] - stats['disagreements'],
            'evaluations': stats['programs'], 'distinct_nontrivial': stats['programs'] - stats['vacuous'],
            'rule': 'corpus + seeded generator profiles ' + ','.join(P['profiles']) + '; non-trivial = at least one system ran',
            'distribution': {k: v for k, v in stats.items() if k not in ('programs', 'disagreements', 'monitor_failures')},
            'samples': samples or [{'note': 'no passing sample recorded'}],
            'projection': P['projection'], 'exhaustive': False,
        },
        'assumptions': P['assumes'],
        'wall_s': round(wall, 2), 'violations': len(violations),
    }
    json.dump(ev, open(evidence_path, 'w'), indent=1)
    for kf in known_hits:
        print(f'KNOWN-FINDING: property={cid} {kf}')
    if stats['programs'] and stats['vacuous'] > 0.5 * stats['programs']:
        raise Broken('generator quality floor: more than half of the programs ran no system')
    if violations:
        kind, rp, note = violations[0]
        print(f'# {note}')
        print(f'VIOLATION property={cid} replay={rp}' + (' no-failing-input-found' if kind == 'no-input' else ''))
        sys.exit(1)
    print(f'OK {cid}: {discharged}/{len(obligations)} theorems, {stats["programs"]} programs, 0 disagreements, {wall:.1f}s')
    sys.exit(0)

if __name__ == '__main__':
    try:
        main()
    except Unproved as e:
        # a proof obligation broke: no failing input can be exhibited for it; name what no longer checks in the replay file
        cid = sys.argv[1]
        os.makedirs(REPLAYS, exist_ok=True)
        rp = os.path.join(REPLAYS, f'{cid}-proof.txt')
        open(rp, 'w').write(f'property {cid}: a proof obligation no longer checks\n\n{e}\n')
        print('# ' + str(e)[:300].replace('\n', ' '))
        print(f'VIOLATION property={cid} replay={rp} no-failing-input-found')
        sys.exit(1)
    except Broken as e:
        print('BROKEN-MACHINERY: ' + str(e))
        sys.exit(2)
