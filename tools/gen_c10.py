#!/usr/bin/env python3
"""Generator of auto-despawn op sequences (C10): one sequence per line."""
import random, sys

def gen_line(rng):
    n = rng.randint(2, 5)
    ents = list(range(1, n + 1))
    ops = [f'sp:{e}' for e in ents]
    sigs = []          # signal ids that were prepared
    nsig = 0
    length = rng.randint(6, 22)
    for _ in range(length):
        k = rng.choices(['pr', 'cl', 'db', 'de', 'drop', 'gc', 'ds', 'dr', 'par'], weights=[3, 3, 2, 2, 4, 3, 1, 1, 2])[0]
        if k == 'pr':
            nsig += 1; sigs.append(nsig)
            e = rng.choice(ents + ([9] if rng.random() < 0.05 else []))
            ops.append(f'pr:{nsig}:{e}')
        elif k == 'cl' and sigs: ops.append(f'cl:{rng.choice(sigs)}')
        elif k == 'db' and sigs: ops.append(f'db:{rng.choice(sigs)}')
        elif k == 'de' and sigs: ops.append(f'de:{rng.choice(sigs)}')
        elif k == 'drop' and sigs:
            g = rng.choice(sigs); ops += [f'db:{g}', f'de:{g}'] if rng.random() < 0.7 else [f'db:{g}', 'gc', f'de:{g}']
        elif k == 'gc': ops.append('gc')
        elif k == 'ds': ops.append(f'ds:{rng.choice(ents)}')
        elif k == 'dr': ops.append(f'dr:{rng.choice(ents)}')
        elif k == 'par': ops.append(f'par:{rng.choice(ents)}:{rng.choice(ents)}')
    ops.append('gc'); ops.append('gc')
    return ' '.join(ops)

if __name__ == '__main__':
    seed, count, out = int(sys.argv[1]), int(sys.argv[2]), sys.argv[3]
    rng = random.Random(seed)
    open(out, 'w').write('\n'.join(gen_line(rng) for _ in range(count)) + '\n')
