"""Per-property configuration: theorems (proof obligations), generator profiles, projections, assumptions."""
import json, os, re

ROOT = os.path.dirname(os.path.dirname(os.path.abspath(__file__)))

AXIOM_ALLOWLIST = set()   # expected: every property theorem is closed under the global context

TRUSTED_BASE = [
    'Coq 8.16.1 kernel (coqc; coqchk in the thorough tier); no native_compute; vm_compute only in Example/witness lemmas',
    'axioms: none expected under any property theorem (Print Assumptions checked on every run against an empty allowlist)',
    'hand-written Gallina model coq/theories/{Base,World,Machine}.v of bevy_cobweb + the slice of Bevy it relies on',
    'extraction: Coq extraction with ExtrOcamlBasic only (no Extract Constant / Extract Inductive of our own); OCaml 4.13.1; model/driver.ml (parser, printer)',
    'correspondence glue: Rust harness /verif/harness (DSL interpreter over the public API, marker commands, Drop probes, catch_unwind), hooks in /repo under --cfg bevy_cobweb_verif (snapshot, runner event sink, entity-world-local probe), tools/check.py comparator and projections',
    'modelled, not verified: Bevy ECS 0.15 (command queue order and per-command flush, entity reservation, component drop on despawn, RemovedComponents buffers, Local/Query/Res fetching, schedule order, App::update), Arc/Drop/Option, Vec/VecDeque/SmallVec/HashMap as lists and association lists, crossbeam channel FIFO, TypeId injectivity, no u64 ticket / usize counter wrap-around',
]

ALL_KINDS = ['mark', 'run', 'ret', 'drop', 'dropsys', 'enter', 'post', 'abort', 'start', 'end', 'discard', 'exit', 'top', 'panic', 'outoffuel', 'driver-error', '<missing>']

# projection = {line kind: None (whole line) | list of field selectors}
# run line: "run <sys> <runno> <captured> <samples...>"; selectors: 'sys', 'runno', 'captured', 'sample'
# top line: selectors are key names (counter, buffered, ev, se, er, de, systems, taken, ereactors, data, tables, keys, dead, alive, xlocal)
PROJ = {
    'dispatch':   {'mark': None, 'run': ['sys', 'sample'], 'top': ['tables', 'keys', 'ereactors']},
    'runs':       {'enter': None, 'post': None, 'abort': None, 'start': None, 'end': None, 'discard': None, 'exit': None,
                   'run': ['sys'], 'top': ['counter', 'buffered', 'taken']},
    'readers':    {'run': ['sys', 'sample']},
    'payloads':   {'mark': None, 'drop': None, 'run': ['sys', 'sample'], 'top': ['data']},
    'lifetime':   {'mark': None, 'dropsys': None, 'top': ['alive', 'dead', 'systems']},
    'poll':       {'mark': None, 'run': ['sys', 'sample'], 'top': ['tables']},
    'order':      {'mark': None, 'run': ['sys'], 'end': None},
    'quiescent':  {'top': ['counter', 'buffered', 'ev', 'se', 'er', 'de', 'taken', 'data']},
    'state':      {'run': ['sys', 'runno', 'captured'], 'dropsys': None},
    'accessor':   {'mark': None, 'ret': None, 'run': ['sys', 'sample']},
    'once':       {'mark': None, 'run': ['sys'], 'top': ['alive', 'tables', 'ereactors', 'keys']},
    'xw':         {'mark': None, 'run': ['sys', 'sample'], 'top': ['xlocal', 'alive', 'systems', 'ereactors', 'tables']},
    'stale':      {'run': ['sys'], 'drop': None, 'abort': None, 'top': None},
    'full':       {k: None for k in ALL_KINDS},
}

def project_line(proj, line):
    if not line: return None
    kind = line.split(' ', 1)[0]
    if kind in ('panic', 'outoffuel', 'driver-error', '<missing>'): return line
    if kind not in proj: return None
    sel = proj[kind]
    if sel is None: return line
    ws = line.split(' ')
    if kind == 'run':
        out = ['run']
        if 'sys' in sel: out.append(ws[1])
        if 'runno' in sel: out.append(ws[2])
        if 'captured' in sel: out.append(ws[3])
        if 'sample' in sel: out += ws[4:]
        return ' '.join(out)
    if kind == 'top':
        out = ['top', ws[1]]
        for w in ws[2:]:
            k = w.split('=', 1)[0]
            if k in sel: out.append(w)
        return ' '.join(out)
    return line

RUNNER_KINDS = ('enter', 'post', 'abort', 'start', 'end', 'discard', 'exit')

def canon_tickets(lines):
    """tickets are an internal counter of the crate: rename them by order of first appearance, so that a change of
    their start value or stride (which no property constrains) is not reported; equal tickets stay equal"""
    ren, out = {}, []
    for l in lines:
        ws = l.split(' ')
        if ws and ws[0] in RUNNER_KINDS and len(ws) >= 3:
            ws[2] = ren.setdefault(ws[2], 'k%d' % len(ren))
            l = ' '.join(ws)
        out.append(l)
    return out

def project(projname, lines):
    proj = PROJ[projname]
    out = []
    lines = canon_tickets(lines)
    for l in lines:
        p = project_line(proj, l)
        if p is not None: out.append(p)
    return out

COMMON_ASSUMES = [
    'the theorem is about the hand-written model; the tie to /repo is the differential correspondence on sampled programs',
    'Bevy semantics (command flush order, despawn/drop order, RemovedComponents) as modelled in World.v/Machine.v',
]

def P(theorems, profiles, projection, assumes=(), determined=False, quick_n=2400, thorough_n=40000):
    return {'theorems': theorems, 'profiles': profiles, 'projection': projection, 'assumes': COMMON_ASSUMES + list(assumes),
            'determined': determined, 'quick_n': quick_n, 'thorough_n': thorough_n}

PROPS = {}

def load_known_findings():
    p = os.path.join(ROOT, 'known_findings.json')
    if not os.path.exists(p): return {'findings': [], 'fixed': []}
    return json.load(open(p))

def match_known(known, cid, program_text, why):
    """a known finding is identified by property + a regular expression over the monitor's message"""
    for k in known.get('findings', []):
        if k['property'] == cid and re.search(k['why_regex'], why):
            return k['what']
    return None

PROPS['C01'] = P(
    ['reachable_wf', 'step_wf', 'dispatch_exact', 'dispatch_removal_exact', 'dispatch_despawn_exact', 'only_triggers_schedule',
     'register_typewide_adds_one', 'register_entity_adds_one', 'register_despawn_adds_one', 'registrations_frame'],
    ['dispatch', 'mixed', 'xw'], 'dispatch', determined=True,
    assumes=['TypeId hashing: type tags are distinct (HashMap keyed by TypeId modelled as an association list with distinct keys)'])
PROPS['C06'] = P(
    ['revoke_exact', 'revoke_exact_distinct', 'revoke_is_complete', 'revoke_is_local', 'revoke_is_immediate', 'revoke_twice', 'revoking_a_token_is_exact', 'revoke_keeps_wf'],
    ['dispatch', 'lifetime', 'xw'], 'dispatch', determined=True,
    assumes=['S1: completeness/idempotence theorems assume distinct_regs (one registration per (reactor, key)); revoke_exact states the behaviour without it'])

PROPS['C14'] = P(
    ['get_mut_one_trigger', 'set_if_neq_exact', 'noreact_never_triggers', 'read_never_triggers', 'res_get_mut_one_trigger',
     'res_set_if_neq_exact', 'res_noreact_never_triggers', 'explicit_broadcast_one_trigger', 'explicit_entity_event_one_trigger',
     'insert_queues_pair', 'insert_applied', 'insertion_reaction_iff_component_present', 'no_key_no_reaction'],
    ['accessor', 'mixed'], 'accessor', determined=True,
    assumes=['values are u32 in the harness and unbounded N in the model (the generator uses a 3-value domain)'])

# ---------------------------------------------------------------------------------------------------------------
# MANIFEST texts: (level text, level note, technique, design ref)
MANIFEST_TEXT = {
 'C01': ("Machine-checked theorems (Coq) over the hand-written model: in every state reachable by any program (wf_tables is an invariant of every interpreter step) a trigger application queues exactly one reaction per live matching registration, in order, and nothing else; registration adds exactly the named entry. Tied to /repo on every run by running model and crate on the same generated programs and comparing run samples and table sizes.",
         "Trusted: Coq kernel, the model's faithfulness (checked by differential runs, bounded by generator coverage), Bevy semantics as modelled, TypeId injectivity. The link 'queued reaction command => exactly one run' is C02.",
         "Coq proof (refinement of the tables to an abstract registration list) + model/implementation correspondence", "DESIGN.md §5 C01"),
 'C06': ("Machine-checked theorems: revoke_one removes exactly the registrations a token names (all matches in the per-entity component, the first match in a type-wide table), keeps every other registration in order, is idempotent, and the next dispatch of any key excludes the revoked reactor; completeness/idempotence under distinct_regs (S1). Tied to /repo by the same differential runs (dispatch/lifetime/xw profiles).",
         "Trusted: as C01. Duplicate registrations of one reactor under one key are outside the completeness theorem (stated exactly by revoke_exact).",
         "Coq proof (list refinement lemmas) + model/implementation correspondence", "DESIGN.md §5 C06"),
 'C14': ("Machine-checked theorems about the model of each accessor call: get_mut / trigger calls queue exactly one trigger, set_if_neq stores, returns the old value and triggers iff different, get/get_noreact never trigger, and an insertion command carries a trigger key iff the component is on a live entity when it is applied (the D2 fix). Tied to /repo by differential runs of the accessor profile comparing returned values, marks and reactor runs.",
         "Trusted: as C01; component/resource values are u32 in the crate and unbounded in the model.",
         "Coq proof (direct, per accessor) + model/implementation correspondence", "DESIGN.md §5 C14"),
}

PROPS['C11'] = P(
    ['quiescent_after_every_tree', 'quiescent_between_trees', 'runner_invariant', 'tracker_invariant', 'no_unpolled_removal_or_despawn_when_a_tree_returns', 'no_event_data_entity_left'],
    ['recursion', 'stale', 'mixed'], 'quiescent', determined=True,
    assumes=['data entities (DataEntityCounter / SystemEventData) being gone when a run ends is a theorem (no_event_data_entity_left, from the count bound of DataSpec) and is also compared (snapshot data=0) and monitored (m_quiescent)',
             'obs_indep_history ("a tree behaves the same whatever ran before") follows informally from quiescence + ticket-independence of observations; not stated as a theorem'])
PROPS['C18'] = P(
    ['never_panics', 'aborted_command_is_cleaned_up', 'remaining_registrations_work', 'still_quiescent'],
    ['stale', 'lifetime', 'recursion', 'mixed'], 'stale', determined=False,
    assumes=['Stuck 4 = Bevy B0003 (spawn command for an entity despawned before the command is applied) is user-level misuse of Bevy Commands::spawn; the generator issues system-spawning actions first in every deferred list (wf rule spawn_first)',
             'panics inside code the model does not cover (Bevy internals) can only be exhibited by the harness (catch_unwind)',
             'payload release for stale targets is C05 (correspondence + m_payloads monitor)'])
PROPS['C02'] = P(
    ['runner_invariant', 'root_frame_leaves_nothing', 'trees_run_to_completion', 'postponed_only_for_active', 'every_event_carrying_command_is_resolved_exactly_once',
     'unticketed_commands_resolved_exactly_once', 'unticketed_balance_everywhere', 'an_unticketed_command_is_noted_when_applied',
     'an_itemless_claim_is_the_setup_of_an_unticketed_command'],
    ['recursion', 'mixed', 'stale'], 'runs', determined=True,
    assumes=['exactly-once is a theorem for every command that parks event data (unique ticket: set up exactly once, by its run or by the abort path) and, in counting form per target system, for the commands that draw no ticket (plain system commands, resource reactions: applied = set up over the whole run); the count of start / abort lines of the event log and termination rest on the correspondence (runner event sink) and the m_runs monitor'])
MANIFEST_TEXT['C11'] = (
 "Machine-checked: for every program and every sequence of trees, when a top-level operation returns the tree counter is 0, the postponed-command buffer is empty, every system command has its callback back, all four trackers have no pending metadata and no reacting flag, and the despawn tracker holds no handle (run_quiescent_full), whenever the runner returns no removal record is unread and the despawn channel is empty, and when a run ends no event data entity is left (count bound of DataSpec) — from two invariants proved for every interpreter instruction with a ghost calling context (exec_runner, exec_ticket). Tied to /repo by differential runs comparing the bookkeeping snapshot (hook) after every top-level op, plus the m_quiescent monitor on implementation logs.",
 "Trusted: Coq kernel; model faithfulness (differential); Bevy semantics as modelled. No event data entity is left when a run ends (theorem, DataSpec); history-independence is not a theorem.",
 "Coq proof (invariants over the interpreter with ghost context) + model/implementation correspondence + monitor", "DESIGN.md §5 C11")
MANIFEST_TEXT['C18'] = (
 "Machine-checked: no program can make the model panic other than through Bevy's own B0003 spawn misuse (run_never_panics: setup never misses its tracker entry, no double start, callbacks present), an aborted command consumes exactly its own metadata, tables stay well formed and the tree ends quiescent. Tied to /repo by differential runs of the stale/lifetime profiles (operations on dead or never-spawned systems, entities, targets) under catch_unwind, with the m_panic, m_quiescent and m_payloads monitors.",
 "Trusted: as C11. Stuck 4 (B0003) is excluded by the generator's spawn_first rule; panics in unmodelled Bevy code can only be seen by the harness.",
 "Coq proof (never-Stuck corollary of the tracker invariant) + fault-style differential runs + monitors", "DESIGN.md §5 C18")
MANIFEST_TEXT['C02'] = (
 "Machine-checked for every program: the runner's stack/buffer/counter invariant (exec_runner) — commands are postponed only for targets whose frame is active, every buffer entry targets an active frame, at a root frame the buffer is already empty before the discard loop, and when the outermost flush returns nothing is unresolved (trees_run_to_completion); over a whole run every command that parked event data was set up exactly once, by its run or by the abort path (tickets of claims = tickets of parked commands, pairwise distinct); for the commands that draw no ticket (plain system commands, resource-mutation reactions) the counting form holds per target system: as many were set up, by run or abort path, as were applied (a balance applied - set up - waiting-in-the-buffer proved by induction over the interpreter). Termination is not a theorem (fuel); the start / abort lines of the runner event stream are compared by the correspondence (hook 2) and checked by the m_runs monitor.",
 "Trusted: as C11. Termination is not a theorem (executions that run out of fuel are excluded by the statements).",
 "Coq proof (runner invariant with ghost context) + model/implementation correspondence on runner events + monitor", "DESIGN.md §5 C02")

PROPS['C10'] = P(
    ['refcount_invariant', 'channel_entries_have_no_clone', 'never_while_a_clone_exists', 'last_drop_is_collected',
     'everything_on_the_channel_is_collected', 'descendants_go_with_it', 'gc_is_idempotent', 'gc_touches_nothing_else'],
    [], 'full', determined=True, quick_n=3000, thorough_n=60000,
    assumes=['partial: atomicity of Arc\'s strong count, Drop running exactly once, and linearizability of the crossbeam channel are runtime facts in the trusted base; the theorem quantifies over every op sequence = every interleaving of the (atomic) steps',
             'descendants: "hangs below" is evaluated when the entity is collected (kill_tree); prepared once per entity (S2) for never_while_a_clone_exists',
             'the driver performs every real drop on a freshly spawned worker thread, but sequentially (deterministic replay); the thorough tier adds a free-running stress (4 worker threads dropping clones while the main thread collects, 3000 rounds) judged by the statement of the theorems at the end of each round'])
PROPS['C10']['engine'] = 'c10'
MANIFEST_TEXT['C10'] = (
 "Machine-checked over a standalone model of auto_despawn.rs, for every operation sequence (prepare / clone / split drop / collect / despawn / reparent — i.e. every interleaving of worker-thread drops with main-thread collections): a signal is live, sending or sent, never two at once; channel entries come only from signals with no clone left; an entity whose signal is live survives every collection; the first collection after the last drop despawns it with what hangs below it; collection is idempotent and ignores dead entities. Tied to /repo by running generated sequences on the real AutoDespawner (drops executed on worker threads) and comparing the live set after every operation.",
 "Trusted: Coq kernel; Arc atomicity, Drop-once and channel linearizability (runtime facts the model cannot exhibit: partial); bevy_hierarchy despawn_recursive as modelled.",
 "Coq proof (invariant over op sequences = interleavings) + model/implementation correspondence", "DESIGN.md §5 C10")

PROPS['C17'] = P(
    ['keyed_state_is_persistent_and_private', 'call_invariant', 'commands_applied_before_return', 'spawned_error_cases',
     'named_direct_error_cases', 'named_direct_is_named_syscall_when_cached'],
    [], 'full', determined=True, quick_n=3000, thorough_n=60000,
    assumes=['S6: same-key re-entrancy of syscall/named_syscall loses the inner state (documented WARNING): the persistence theorem assumes no key is re-entered (ghost flag s_reent), the model reproduces the documented behaviour and the correspondence covers it (a quarter of the generated trees are re-entrant)',
             'Bevy system initialisation, Local persistence inside an initialised system and apply_deferred are modelled, not verified'])
PROPS['C17']['engine'] = 'c17'
MANIFEST_TEXT['C17'] = (
 "Machine-checked over a standalone model of syscall / named_syscall / named_syscall_direct / spawned_syscall, for every call tree (any sequence, any nesting through queued commands, all entry points): without same-key re-entrancy the n-th body under a key sees Local = n (state persistent per key, independent between keys), every queued command is applied before the call returns, and a missing or currently running spawned system yields Err and runs nothing; named_syscall_direct yields Err and runs nothing unless the named node exists and holds its system, and is otherwise exactly named_syscall under that key. Tied to /repo by running generated call trees on the real functions and comparing every body's (key, input, Local) and every return value.",
 "Trusted: Coq kernel; Bevy system initialisation / Local / apply_deferred as modelled. The documented same-key re-entrancy behaviour is modelled and compared, not a theorem.",
 "Coq proof (per-key counter invariant over call trees) + model/implementation correspondence", "DESIGN.md §5 C17")

PROPS['C03'] = P(
    ['assertion_guards_every_body', 'assertion_meaning', 'body_sees_exactly_its_own_claim', 'claims_are_exactly_what_was_parked',
     'setup_claims_own_entries', 'setup_exposes_its_claim', 'despawn_reader', 'entity_reaction_readers', 'broadcast_reader',
     'entity_event_reader', 'system_event_reader', 'other_kinds_report_nothing', 'manual_run_sees_nothing'],
    ['recursion', 'mixed', 'stale', 'xw'], 'readers', determined=True,
    assumes=['readers are sampled once, at the start of every harness body (all eight reader kinds, both event types); reads later in a body are not modelled',
             'partial: "returns that event\'s own payload" is proved up to the data entity — the reader answers from the data entity named by the run\'s own command; that this entity still holds the payload stored when the event was sent (it is not dropped early) is C05, checked by the correspondence and the m_readers / m_payloads monitors',
             'ghost bookkeeping (g_prep, g_claim, visible, the Stuck 5 assertion) exists only in the model; the tie is the compared reader samples of every run'])
MANIFEST_TEXT['C03'] = (
 "Machine-checked for every program: the model asserts at the start of every body that the tracker entries the readers can see are exactly the entries claimed by that run's own setup for the running system, and this assertion never fails (body_sees_exactly_its_own_claim, from the ticket invariant proved for every interpreter instruction with a ghost calling context); every claim is literally the entry list parked by one command under its unique ticket, or empty for a manual run (claims_are_exactly_what_was_parked); each reader answers only from the visible entry of its own kind and type, readers of other kinds report nothing, a manual run sees nothing (ReadersSpec). Tied to /repo by differential runs comparing all reader samples of every run (recursion profile: bursts of mixed events pending for one busy system), plus the m_readers monitor on implementation logs.",
 "Trusted: Coq kernel; model faithfulness (differential); Bevy semantics as modelled. Partial: payload integrity of the data entity between send and run is C05 (not a theorem); readers are sampled at body start only.",
 "Coq proof (ghost-instrumented model: parked/claimed entry lists, proved-unreachable assertion, reader characterisation) + model/implementation correspondence + monitor", "DESIGN.md §5 C03")

PROPS['C04'] = P(
    ['every_run_sees_only_its_own_event', 'claims_are_exactly_what_was_parked', 'flags_off_nothing_visible', 'nothing_visible_nothing_read',
     'cleanup_closes_the_window', 'flags_are_off_at_every_command_boundary', 'flags_are_off_between_trees', 'system_event_taken_at_most_once'],
    ['recursion', 'mixed', 'xw', 'stale'], 'readers', determined=True,
    assumes=['probe positions: the generator makes every system sample all readers at the start of every run, so every nested / manual / re-run position of every tree is a probe; reads later in a body are not modelled',
             'early-return (Err) systems: the model ignores sd_err; that an Err return changes nothing is established by the correspondence (a third of generated systems return Err), not by a theorem',
             'a second SystemEvent::take in the same body is proved on the model function take_sysevents; the harness takes once per run'])
MANIFEST_TEXT['C04'] = (
 "Machine-checked for every program: every run (nested reaction, manual run, re-run, reactor of another event, any later run) starts with the readers exposing exactly what its own command parked and nothing else — the proved-unreachable assertion of C03 — so a run whose command carried no event reads nothing; cleanup switches off every flag its setup switched on (cleanup_ok), the flags are off at every command boundary on both paths of run_initialized_system (exec_ticket: only an exclusive system's own queued cleanup may still be pending at the head of its command list) and between trees; take_sysevents yields at most one payload and nothing afterwards. Tied to /repo by differential runs comparing all reader samples of every run, with plain, exclusive and Err-returning systems, plus the m_readers monitor.",
 "Trusted: Coq kernel; model faithfulness (differential); Bevy semantics as modelled. Readers are sampled at body start only; Err-return equivalence rests on the correspondence.",
 "Coq proof (ticket/flag invariant over the interpreter, proved-unreachable assertion, reader characterisation) + model/implementation correspondence + monitor", "DESIGN.md §5 C04")

PROPS['C13'] = P(
    ['state_is_persistent_and_private', 'state_invariant_everywhere', 'body_logs_the_stored_state', 'assertion_guards_every_body',
     'history_matches_log', 'state_is_dropped_at_most_once', 'callback_never_missing'],
    ['recursion', 'lifetime', 'mixed', 'xw'], 'state', determined=True,
    assumes=['the state is the pair (Local<u32> run counter, counter captured by the closure) of the harness bodies; Bevy\'s own system state (query caches, change ticks) is not modelled',
             'the state is dropped at most once and a live record was never dropped (closed invariant DInv over the ghost drop history); that it IS dropped when the system dies (no leak) is checked by the correspondence (dropsys lines) and the m_state monitor',
             'an id is installed once (ghost set `spawned`): the harness ignores a second spawn under a bound id, as the model does'])
MANIFEST_TEXT['C13'] = (
 "Machine-checked for every program and every system t (closed invariant of every interpreter step, hence of every recursion pattern and sequence of trees): the (Local, captured) pairs logged by the runs of t are (0,0), (1,1), ..., (n-1,n-1) in order and, while the state exists, both stored counters equal n — the state is created once with (0,0), advanced only by t's own body, never reset, re-created or touched by another system's run; the body logs exactly the stored pair (proved-unreachable assertion), the state is dropped at most once and never while its record is live, and the callback is never missing when a command runs it. Tied to /repo by differential runs comparing the Local and captured counters printed by every run of every system and the drop of each system's state, plus the m_state monitor.",
 "Trusted: Coq kernel; model faithfulness (differential); Bevy Local/closure-capture semantics as modelled. The state being dropped when the system dies (no leak) is correspondence + monitor.",
 "Coq proof (closed per-system invariant over a ghost run history, proved-unreachable assertion) + model/implementation correspondence + monitor", "DESIGN.md §5 C13")

PROPS['C05'] = P(
    ['unheard_broadcast_dropped_at_once_partial', 'unheard_entity_event_dropped_at_once_partial', 'counter_starts_at_number_of_readers_partial',
     'entity_event_counter_starts_at_number_of_readers_partial', 'payload_kept_while_readers_remain_partial',
     'entity_event_payload_kept_while_readers_remain_partial', 'last_reader_releases_partial', 'system_event_data_released_by_cleanup_partial',
     'one_decrement_per_cleanup_partial', 'skipped_reader_still_cleans_up_partial', 'no_reader_is_lost_partial', 'every_scheduled_reader_is_set_up_exactly_once',
     'every_counted_reader_of_a_broadcast_is_parked', 'every_counted_reader_of_an_entity_event_is_parked',
     'count_never_exceeds_the_readers_to_come', 'recorded_data_entities_are_alive_everywhere', 'no_event_data_entity_outlives_the_run'],
    ['stale', 'recursion', 'lifetime', 'mixed'], 'payloads', determined=False,
    assumes=['PARTIAL: step-level protocol for all states; whole executions: counted readers all parked, every parked command set up exactly once, count <= readers still to come at every instruction boundary, no data entity left when a run ends. Not proved: the converse inequality (no release before the last scheduled reader has run) and exactly-once as a count over the log. That rests on the correspondence (every payload drop is a compared log line; the number of live data entities is compared after every top-level op) and on the m_payloads monitor',
             'the data-entity spawn (CSpawnData) is a separate deferred command, as in the crate'])
MANIFEST_TEXT['C05'] = (
 "Partial proof. Machine-checked for all states: an unheard broadcast / entity event drops its payload at once and creates no bookkeeping entity or command; otherwise the counter of the fresh data entity equals the number of reaction commands queued behind it; every cleanup performs exactly one decrement, which leaves entity and payload untouched while the counter stays positive and despawns the entity — dropping the payload — when it reaches zero; the cleanup of a system-event command despawns its data entity; a skipped (aborted) reader still runs setup and cleanup and setup never fails; over whole executions every reaction command a trigger queues (as many as the counter starts with) is parked, in order, with the data entity as its parked item before the trigger command returns, and every parked command is set up exactly once (run or abort), never lost and never twice. The leak-freedom half of the counter equation is a theorem for whole executions, with no assumption on the program: at every instruction boundary the count a live data entity carries never exceeds the readers still to come (parked entries + open window + reaction commands queued in the instruction + what the calling context owes), hence when a run ends no event data entity is left at all. The converse (the count is never below the readers still to come: no release while a scheduled reader has yet to run) is not a theorem: it is checked by differential runs comparing every payload drop position and the number of live data entities after every top-level op (stale profile: listeners revoked, despawned or missing between scheduling and running), plus the m_payloads monitor.",
 "Trusted: Coq kernel; model faithfulness (differential); Bevy semantics as modelled. Partial: the exactly-once / not-before-the-last-reader claim over whole trees is correspondence + monitor.",
 "Coq proof of the step-level protocol (partial) + model/implementation correspondence on drop positions and data-entity counts + monitor", "DESIGN.md §5 C05")

PROPS['C15'] = P(
    ['one_off_reactor_runs_at_most_once', 'one_off_record_bound', 'once_invariant_everywhere', 'spent_wrapper_does_nothing', 'first_run_of_the_wrapper',
     'entity_gone_after_the_run', 'revoking_its_token_removes_every_trigger', 'spent_wrapper_is_never_runnable'],
    ['once', 'lifetime', 'dispatch', 'mixed'], 'once', determined=True,
    assumes=['partial: "runs on the FIRST trigger to fire" (at least once) and "revoked before any trigger fires / empty bundle: collected without ever running" go through dispatch exactness (C01), revocation (C06) and the auto-despawn handles (C07); they are checked by the correspondence (once profile), not restated as theorems here',
             'S1: the completeness of self-revocation assumes one registration per (reactor, key)'])
MANIFEST_TEXT['C15'] = (
 "Machine-checked for every program: over the whole history of a run the inner system of a one-off wrapper is started at most once per reactor, whether or not the reactor still exists (closed invariant OH over a ghost start history written next to the EvRun line; Local is 0 until the inner system is taken and at most 1 afterwards); a spent wrapper is a no-op and is never held by the runner as runnable; the first run marks the wrapper, runs the inner system, despawns its own entity (dead afterwards), revokes its own token (which removes every registration it names) and drops the inner system. Tied to /repo by differential runs of the once profile (multi-trigger bundles, several triggers in one tree, self-triggering, revocation before and after) comparing runs, live entities and table sizes.",
 "Trusted: Coq kernel; model faithfulness (differential); Bevy semantics as modelled. Partial: at-least-once on the first trigger and never-runs-when-revoked/empty are correspondence only (they rest on C01/C06/C07).",
 "Coq proof (closed invariants over ghost histories + step lemmas of the wrapper) + model/implementation correspondence", "DESIGN.md §5 C15")

PROPS['C16'] = P(
    ['world_reactor_add_registers_its_single_system_partial', 'world_reactor_remove_revokes_partial',
     'persistent_registration_spawns_and_collects_nothing_partial', 'removing_triggers_despawns_nothing_partial',
     'local_data_only_on_live_entities', 'local_data_invariant_everywhere', 'entity_reactor_add_partial', 'local_data_attached_partial', 'run_sees_the_data_of_its_entity_partial', 'entity_reactor_remove_partial',
     'every_named_entity_is_cleaned_once_partial', 'data_removed_with_the_last_trigger_kept_otherwise_partial', 'cleanup_leaves_other_data_partial'],
    ['xw', 'mixed'], 'xw', determined=False,
    assumes=['PARTIAL: step-level theorems for all states; the frame over whole runs (no other step changes a datum besides the body\'s own increment and the despawn of the entity; the shared system is never despawned or duplicated by any sequence) rests on the correspondence: the set of (reactor, entity) data is compared after every top-level op and the datum shown to every run is compared',
             'what registration / revocation do to the tables is C01 / C06'])
MANIFEST_TEXT['C16'] = (
 "Partial proof. Machine-checked for whole runs: in every reachable state local data sits on live entities only (closed invariant: the body's own increment writes the datum of a live reacting entity, despawning an entity removes its data). Machine-checked for all states: adding triggers to a world reactor is a registration of its single statically installed system under a persistent handle (which changes no state besides queuing table insertions: nothing is spawned, no auto-despawn signal exists for it), removing triggers is a revocation, which despawns nothing and touches no callback; for an entity world reactor, add attaches the datum and registers the entity's triggers, a run caused by an entity is shown exactly the datum stored for that entity, remove revokes and cleans every named entity exactly once, and the cleanup removes the datum exactly when the entity holds no handle of the reactor's system any more and leaves every other datum alone. The whole-run frame is not a theorem; it is checked by differential runs of the xw profile (add / remove / trigger / despawn over several entities and both reactors, removal bundles naming several entities with partial removal) comparing the (reactor, entity) data set after every op and the datum seen by every run.",
 "Trusted: Coq kernel; model faithfulness (differential); Bevy semantics as modelled. Partial: whole-run frame and never-duplicated/never-despawned are correspondence only.",
 "Coq proof of the step-level behaviour (partial) + model/implementation correspondence on local data and runs", "DESIGN.md §5 C16")

PROPS['C07'] = P(
    ['persistent_handle_is_never_counted_partial', 'persistent_registration_changes_no_state_partial',
     'persistent_reactors_are_never_collected', 'collected_only_if_signalled_everywhere', 'signals_come_only_from_refcounted_registration',
     'signal_table_is_well_formed', 'clone_adds_one_reference_partial',
     'drop_takes_one_reference_partial', 'last_reference_sends_the_reactor_once_partial', 'dropping_a_handle_despawns_nothing_partial',
     'collection_drains_the_channel_partial', 'despawn_drops_the_system_state_partial',
     'dropped_reactors_are_collected_by_the_end_of_the_tree', 'dropped_reactors_are_collected_by_the_end_of_the_frame'],
    ['lifetime', 'once', 'dispatch', 'mixed'], 'lifetime', determined=False,
    assumes=['PARTIAL: step-level theorems for all states; the global reference count (live references = registrations + in-flight registration commands + pending despawn reactions, at every point of every run), hence "alive exactly as long as ..., collected by the first collection after ...", is not a theorem: it rests on the correspondence (live entities, state drops and table sizes compared after every top-level op, collections at arbitrary points) ',
             'the signal / channel / collector are verified against the real AutoDespawner for every interleaving in C10'])
MANIFEST_TEXT['C07'] = (
 "Partial proof. Machine-checked for whole runs: in every reachable state the collector's channel and the signal table hold only entities for which an auto-despawn signal was prepared, and no command other than a registration in the Cleanup / Revokable modes prepares one — a reactor only ever registered in persistent mode is never collected; the signal table is well formed in every reachable state (positive counts, distinct ids below the id counter); collection is timely: whenever the system-command runner returns (run, abort or postponement) and at the end of every frame the collector's channel is empty, so a reactor whose last reference was dropped during a tree is despawned before the tree ends. Machine-checked for all states: a persistent registration carries no signal and changes no state; an auto-despawn handle is one reference to one signal (clone +1, drop -1), the drop of the last reference sends the reactor entity to the collector exactly once, and dropping a handle despawns nothing; a collection drains the channel completely, including what its own despawns add, and every collected entity is dead afterwards; despawning a reactor drops its boxed callback. The global reference count over whole runs is not a theorem: it is checked by differential runs of the lifetime profile (all three modes, empty bundles, bundles naming dead entities, every order of revoke / fire / despawn / collect) comparing live entities, system-state drops and table sizes after every top-level op. The signal and collector are verified against the real AutoDespawner in C10.",
 "Trusted: Coq kernel; model faithfulness (differential); Bevy semantics as modelled. Partial: the global reference count (no leak / no premature despawn over whole runs) is correspondence only.",
 "Coq proof of the step-level behaviour (partial) + model/implementation correspondence on live entities and state drops", "DESIGN.md §5 C07")

PROPS['C08'] = P(
    ['removal_is_recorded_once_partial', 'nothing_recorded_for_a_component_not_removed_partial', 'sequence_numbers_stay_below_the_counter_partial',
     'sequence_numbers_invariant_everywhere', 'a_removal_is_read_once_in_every_reachable_state',
     'poll_schedules_every_unread_removal_partial', 'removal_reactions_go_to_exactly_the_registered_reactors_partial', 'a_removal_is_read_once_partial',
     'watched_entity_sent_once_on_despawn_partial', 'unwatched_entity_sends_nothing_partial', 'poll_schedules_every_despawn_reactor_partial',
     'despawn_reactions_go_to_exactly_the_registered_reactors_partial', 'despawn_reactor_fires_at_most_once_per_entity_partial',
     'poll_empties_the_despawn_channel_partial',
     'reactions_of_one_poll_are_parked_in_order', 'tickets_increase_in_parking_order', 'every_parked_reaction_is_set_up_exactly_once',
     'a_tree_ends_with_nothing_unread', 'a_poll_and_what_it_schedules_leave_nothing_unread', 'a_frame_ends_with_nothing_unread'],
    ['poll', 'lifetime', 'mixed'], 'poll', determined=False,
    assumes=['PARTIAL: step-level theorems for all states (recording, one poll, consumption); whole executions: every reaction scheduled by a poll is parked in the order the poll produced it and every parked command is set up exactly once (run or abort path); polls come in time: whenever the runner returns (run, abort, postponement), whenever a poll with everything it schedules returns, and at the end of every frame, no removal record is unread and the despawn channel is empty (QuietSpec); not proved: the composition of these links into one log-level statement (one run line per removal record and registered reactor) — that is what the correspondence compares (poll profile, frames with plain Bevy systems, direct world access)',
             'Bevy RemovedComponents double-buffering is modelled by generation stamps and clear_trackers (World.v); causes in plain Bevy systems are the frame batches of TFrame'])
MANIFEST_TEXT['C08'] = (
 "Partial proof. Machine-checked for all states: each removal of a reactive component is recorded exactly once under a fresh sequence number and nothing is recorded for a component that was not removed; one poll schedules, for every record a checker has not read, exactly the reactions of the reactors registered for that removal (C01 dispatch exactness), and advances every cursor so that a record is read once — in every reachable state (the sequence-number invariant is closed under every interpreter step); a watched entity is sent exactly once when it dies, a poll schedules one reaction per registered despawn handle, consumes the entity's table entry (at most one firing per watched entity) and empties the channel. For whole executions: every reaction a poll schedules is parked (fresh, strictly increasing ticket) in the order the poll produced it, and over a whole run every parked command is set up exactly once, by the run it causes or by the abort path. Polls come in time: whenever the system-command runner returns (after a run, an abort or a postponement), whenever a poll with everything it schedules returns, and at the end of every frame, the despawn channel is empty and no removal checker has an unread record (induction over the interpreter). Partial only in that these links are separate theorems, not one log-level statement; the composition is checked by differential runs of the poll profile (inserts, removals, re-inserts and despawns between polls; causes in reactors, in frame batches and by direct access; several reactors and despawn triggers per entity).",
 "Trusted: Coq kernel; model faithfulness (differential); Bevy RemovedComponents semantics as modelled. Partial: see above.",
 "Coq proof of the step-level behaviour (partial) + model/implementation correspondence", "DESIGN.md §5 C08")

PROPS['C09'] = P(
    ['log_is_append_only', 'queued_commands_telescope', 'command_list_logs_blocks_in_order', 'runner_commands_run_inline', 'consequences_run_before_the_next_command',
     'postponed_only_while_the_target_executes', 'postponed_commands_queue_in_order', 'replay_front_to_back',
     'replayed_runs_own_postponed_commands_come_first', 'commands_for_other_targets_keep_their_order', 'nothing_left_postponed', 'polled_reactions_run_by_the_end_of_the_tree'],
    ['recursion', 'mixed', 'poll'], 'order', determined=True,
    assumes=['the interpreter is big-step (a command\'s execution includes everything it causes); the theorems add that effects are laid down in that order (append-only log) and describe the postponement exception; "the order of run lines = depth-first order of the command tree" over whole programs is the compared observation (order projection: every mark, run and end line), not a single theorem',
             'the placement of polls (before and after every system command, end of frame) is structural in Machine.exec and compared'])
MANIFEST_TEXT['C09'] = (
 "Machine-checked for every program: the log is append-only under every interpreter step, so a queued command together with everything it transitively causes logs a block that precedes every effect of the next queued command, and the log of a whole command list is the concatenation of its commands' blocks in list order (queued_commands_telescope, command_list_logs_blocks_in_order); commands that enter the runner run in-line when applied and the commands produced by a trigger or registration are executed before the next queued command; a command is postponed only while its target is executing (runner invariant with ghost calling context), postponed commands queue in order, are replayed front to back right after the target's run and before control returns to what was queued after it, what the replayed runs postpone themselves goes first and commands for other targets keep their order; nothing is left postponed when the outermost command returns. Tied to /repo by differential runs of the recursion profile comparing every mark, run and end line in order, plus the m_runs monitor.",
 "Trusted: Coq kernel; model faithfulness (differential); Bevy command-queue semantics as modelled. The single whole-program statement 'run order = depth-first order of the command tree' is the compared observation rather than a theorem; poll placement is structural.",
 "Coq proof (append-only log as a closed invariant, structural theorems of the big-step interpreter, runner invariant) + model/implementation correspondence on the order of all marks and runs + monitor", "DESIGN.md §5 C09")
PROPS['C12'] = P(
    ['each_delivery_carries_its_own_data', 'own_data_means_the_entries_of_one_command', 'deliveries_are_applied_in_the_order_sent_partial',
     'tickets_are_drawn_in_application_order_partial', 'busy_target_deliveries_queue_in_order_partial', 'replay_is_front_to_back_partial',
     'deliveries_to_other_targets_keep_their_order_partial',
     'deliveries_are_parked_in_the_order_sent', 'a_delivery_is_parked_under_the_next_ticket_before_anything_it_causes', 'tickets_increase_in_parking_order'],
    ['recursion', 'mixed'], 'readers', determined=False,
    assumes=['PARTIAL: "each with its own data" is proved in full (C03); the order is proved per mechanism (application order, ticket order, FIFO postponement, front-to-back replay that keeps the order of what it skips), not as the single statement "the k-th delivery from one run to one target is the k-th of them to start" over whole programs with nested replays; that is compared (readers / order projections, bursts of 2-4 mixed deliveries to one busy or idle target) and checked by the m_order monitor'])
MANIFEST_TEXT['C12'] = (
 "Partial proof. Machine-checked for every program: every delivery carries its own data — a run sees exactly the entries parked by the command that caused it, for any number and mix of deliveries pending for one system (C03: proved-unreachable assertion + exact claims under unique tickets). For the order: commands of one run are applied in the order queued and an in-line delivery completes with its whole subtree before the next is applied; tickets are drawn in application order; over whole executions the deliveries of one command list are parked in list order, each before anything it causes, under strictly increasing tickets (the k-th sent holds the k-th smallest ticket; closed invariant over every interpreter step); deliveries to a busy target are appended to the back of the buffer; the replay after the target's run is front to back and keeps the relative order of what it does not run. The whole-program statement about the order in which the deliveries START, with nested replays, with nested replays is not a theorem; it is checked by differential runs (recursion profile: bursts of 2-4 deliveries of mixed kinds to one busy or idle target, alone or interleaved with other targets) and by the m_order monitor.",
 "Trusted: Coq kernel; model faithfulness (differential); Bevy semantics as modelled. Partial: order over whole programs with nested replays is correspondence + monitor.",
 "Coq proof (own-data in full via the ticket invariant; order per mechanism, partial) + model/implementation correspondence + monitor", "DESIGN.md §5 C12")
