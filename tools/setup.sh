#!/bin/bash
# Build the framework from files on disk only (offline): Coq development (full .vo), extracted model + driver, harness.
set -e
cd "$(dirname "$0")/.."
export CARGO_NET_OFFLINE=true RUSTFLAGS="--cfg bevy_cobweb_verif"
( cd coq && coq_makefile -f _CoqProject -o Makefile >/dev/null 2>&1 && timeout 3000 make -j16 >/dev/null )
( cd model && ocamlfind ocamlopt -package str -w -a -O2 model.mli model.ml driver.ml -o model_run )
( cd harness && cp /repo/Cargo.lock . && timeout 3000 cargo build --offline 2>&1 | tail -1 )
echo setup-ok
