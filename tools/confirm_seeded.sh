#!/bin/bash
# confirm_seeded.sh <ID> <worktree> <outdir>: verify a seeded change: (a) with patch: 81 baseline tests pass and demo fails;
# (b) without patch: everything passes. Writes <outdir>/confirm.txt
ID=$1; WT=$2; OUT=$3
cd $WT || exit 2
git checkout -q -- src
git apply $OUT/patch.diff || { echo "patch does not apply" > $OUT/confirm.txt; exit 1; }
CARGO_NET_OFFLINE=true cargo test --workspace --no-fail-fast --offline > $OUT/with_patch.log 2>&1
W_PASS=$(grep -E "^test result" $OUT/with_patch.log | head -1)
W_FAILED=$(grep -E "^test .* FAILED" $OUT/with_patch.log | tr '\n' ';')
git checkout -q -- src
CARGO_NET_OFFLINE=true cargo test --workspace --no-fail-fast --offline > $OUT/without_patch.log 2>&1
O_PASS=$(grep -E "^test result" $OUT/without_patch.log | head -1)
{ echo "with patch:    $W_PASS"; echo "  failing: $W_FAILED"; echo "without patch: $O_PASS"; } > $OUT/confirm.txt
cat $OUT/confirm.txt
