#!/usr/bin/env python3
"""Regenerates MANIFEST.json from tools/props.py (claimed checks = properties with theorems and a MANIFEST text)."""
import json, os, sys
sys.path.insert(0, os.path.dirname(os.path.abspath(__file__)))
import props
ROOT = os.path.dirname(os.path.dirname(os.path.abspath(__file__)))
NA_REASONS = json.load(open(os.path.join(ROOT, 'tools', 'na_reasons.json'))) if os.path.exists(os.path.join(ROOT, 'tools', 'na_reasons.json')) else {}
ids = [json.loads(l)['id'] for l in open(os.path.join(ROOT, 'properties.jsonl'))]
checks, na = [], []
for cid in ids:
    if cid in props.PROPS and cid in props.MANIFEST_TEXT and props.PROPS[cid]['theorems']:
        text, note, tech, ref = props.MANIFEST_TEXT[cid]
        checks.append({"property_id": cid, "quick_cmd": f"./check {cid} --tier quick", "thorough_cmd": f"./check {cid} --tier thorough",
                       "evidence_file": f"/verif/evidence/{cid}.json", "replay_cmd_template": f"./check {cid} --replay {{path}}",
                       "engine": "cobweb-coq", "level_claimed": {"category": "proof", "text": text, "design_ref": ref},
                       "level_note": note, "technique": tech})
    else:
        na.append({"property_id": cid, "reason": NA_REASONS.get(cid, "check not built yet (work in progress; see DESIGN.md §5 for the plan)")})
m = {
 "version": 1, "setup_cmd": "./tools/setup.sh",
 "hooks": {"guard": "--cfg bevy_cobweb_verif",
           "enable": "RUSTFLAGS=\"--cfg bevy_cobweb_verif\" cargo build --offline (harness crate /verif/harness depends on /repo by path)",
           "baseline_off_cmd": "cd /repo && CARGO_NET_OFFLINE=true cargo test --workspace --no-fail-fast --offline",
           "source_commits": ["2da8399"], "add_only": True},
 "engines": [{"name": "cobweb-coq", "path": "/verif/check", "serves_properties": [c['property_id'] for c in checks],
              "kind_free_text": "Coq 8.16 theorems over an executable Gallina model (coq/), extracted to OCaml and run against the real crate through a Rust harness (differential correspondence), model-free monitors over implementation logs"}],
 "checks": checks,
 "notes": "Fix commits in /repo: 5f59689 (ticket matching, D1), c2640b3 (insertion guard, D2); see known_findings.json and DESIGN.md §6 (findings) and §7 (seeded changes the checks catch; tools/seeded_matrix.sh re-runs them).",
 "not_applicable": na,
}
json.dump(m, open(os.path.join(ROOT, 'MANIFEST.json'), 'w'), indent=1)
print('checks:', [c['property_id'] for c in checks])
