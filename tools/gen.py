#!/usr/bin/env python3
"""Seeded generator of DSL programs (docs/INTERFACE.md). One PRNG state drives every choice.

usage: gen.py <profile> <seed> <count> <outdir>
profiles: dispatch recursion lifetime poll accessor mixed stale xw once
"""
import random, sys, os

TYPES = [0, 1]

class G:
    def __init__(self, rng, profile):
        self.r = rng
        self.profile = profile
        self.payload = 0
        self.tok = 0
        self.lines = []
        n_ent = rng.randint(2, 5)
        self.ents = list(range(1, n_ent + 1))
        n_sys = rng.randint(2, 6) if profile != 'lifetime' else rng.randint(3, 7)
        self.sys = list(range(101, 101 + n_sys))
        self.unspawned = list(self.sys)      # systems not yet introduced by a spawning action
        self.spawned = []                    # systems some action has introduced (maybe not executed yet)
        self.tokens = []
        self.use_w = profile in ('xw', 'mixed') and rng.random() < (0.9 if profile == 'xw' else 0.3)
        self.use_x = profile in ('xw', 'mixed') and rng.random() < (0.9 if profile == 'xw' else 0.3)
        self.wsys = {0: 201, 1: 202} if self.use_w else {}
        self.xsys = {0: 301, 1: 302} if self.use_x else {}
        self.stale = profile == 'stale' or rng.random() < 0.15

    # ---- ids
    def p(self):
        self.payload += 1
        return self.payload
    def ent(self):
        if self.stale and self.r.random() < 0.1:
            return self.r.choice(self.ents + [9])   # 9 is never spawned
        # hot entities: most operations hit the first two entities so that several reactors share a key
        if self.r.random() < 0.6:
            return self.r.choice(self.ents[:2])
        return self.r.choice(self.ents)
    def target(self):
        """a system to run / message"""
        pool = self.spawned if self.spawned and self.r.random() < 0.9 else self.sys
        c = list(pool)
        if self.wsys and self.r.random() < 0.2: c += list(self.wsys.values())
        if self.xsys and self.r.random() < 0.1: c += list(self.xsys.values())
        return self.r.choice(c)
    def ty(self):
        return self.r.choice(TYPES) if self.r.random() < 0.3 else 0

    # ---- bundles
    def trigger(self, kinds=None):
        r = self.r
        kinds = kinds or ['bc', 'ee', 'aee', 'res', 'ins', 'mut', 'rem', 'eins', 'emut', 'erem', 'dsp']
        k = r.choice(kinds)
        if k in ('bc', 'aee'): return f'{k}.{self.ty()}'
        if k == 'res': return f'res.{self.ty()}'
        if k in ('ins', 'mut', 'rem'): return f'{k}.{self.ty()}'
        if k == 'ee': return f'ee.{self.ty()}.{self.ent()}'
        if k in ('eins', 'emut', 'erem'): return f'{k}.{self.ty()}.{self.ent()}'
        return f'dsp.{self.ent()}'
    def bundle(self, maxn=3, allow_empty=True):
        r = self.r
        n = r.choice([0, 1, 1, 1, 2, 2, 3][: (7 if allow_empty else 6)] if allow_empty else [1, 1, 2, 2, 3])
        n = min(n, maxn)
        if self.profile == 'lifetime' and r.random() < 0.3: n = r.randint(0, 4)
        return '[' + ','.join(self.trigger() for _ in range(n)) + ']'

    # ---- actions
    def spawn_action(self):
        """introduce a new system (each system id is introduced by exactly one action of the program)"""
        r = self.r
        if not self.unspawned: return None
        s = self.unspawned.pop(0)
        self.spawned.append(s)
        k = r.choice(['on', 'on', 'onp', 'onr', 'once', 'sps', 'spsreg'])
        if self.profile == 'lifetime': k = r.choice(['on', 'onr', 'onr', 'once', 'onp', 'spsreg'])
        if self.profile == 'once': k = r.choice(['once', 'once', 'once', 'onr', 'on', 'spsreg'])
        if k == 'sps': return [f'sps:{s}']
        if k == 'spsreg':
            self.tok += 1; self.tokens.append(self.tok)
            return [f'sps:{s}', f'reg:{self.tok}:{r.choice("pcr")}:{s}:{self.bundle()}']
        if k in ('onr', 'once'):
            self.tok += 1; self.tokens.append(self.tok)
            if self.profile == 'once' and r.random() < 0.8:
                # multi-trigger bundles over hot keys: several of them can fire in one tree
                n = r.choice([0, 1, 2, 2, 3, 3])
                b = '[' + ','.join(self.trigger(['dsp', 'dsp', 'dsp', 'bc', 'ee', 'emut', 'res', 'mut']) for _ in range(n)) + ']'
                return [f'{k}:{self.tok}:{s}:{b}']
            return [f'{k}:{self.tok}:{s}:{self.bundle()}']
        return [f'{k}:{s}:{self.bundle()}']

    def action(self, depth=0):
        r = self.r
        prof = self.profile
        w = {
            'run': 3, 'sev': 3, 'bc': 4, 'ee': 4, 'ins': 3, 'mut': 3, 'sin': 1, 'gnr': 1, 'rd': 1, 'rm': 2,
            'dsp': 1, 'dspsys': 1, 'tres': 2, 'sres': 1, 'nres': 0.5, 'spawn': 1.5, 'reg': 1, 'rev': 1.5, 'gc': 0.7, 'poll': 0.7,
            'spe': 0.3, 'w': 0, 'x': 0,
        }
        if prof == 'recursion':
            w.update({'run': 6, 'sev': 7, 'bc': 5, 'ee': 4, 'dspsys': 1.5})
        elif prof == 'dispatch':
            w.update({'bc': 6, 'ee': 6, 'ins': 4, 'mut': 4, 'tres': 3, 'reg': 3, 'rev': 3, 'spawn': 2.5})
        elif prof == 'lifetime':
            w.update({'rev': 5, 'dsp': 3, 'dspsys': 1, 'gc': 3, 'reg': 3, 'spawn': 3, 'poll': 1.5})
        elif prof == 'poll':
            w.update({'rm': 6, 'ins': 5, 'dsp': 3, 'poll': 2, 'gc': 1})
        elif prof == 'accessor':
            w.update({'mut': 6, 'sin': 6, 'gnr': 3, 'rd': 3, 'tres': 4, 'sres': 4, 'nres': 2, 'ins': 5, 'dsp': 2})
        elif prof == 'stale':
            w.update({'dsp': 4, 'dspsys': 4, 'rev': 3})
        elif prof == 'once':
            w.update({'dsp': 5, 'bc': 5, 'ee': 4, 'mut': 3, 'tres': 2, 'rev': 3, 'spawn': 3, 'gc': 2, 'run': 1, 'sev': 1})
        if self.use_w: w['w'] = 4 if prof == 'xw' else 1.5
        if self.use_x: w['x'] = 5 if prof == 'xw' else 1.5
        ks = list(w.keys())
        k = r.choices(ks, weights=[w[x] for x in ks])[0]
        if k == 'run': return [f'run:{self.target()}']
        if k == 'sev': return [f'sev:{self.target()}:{self.ty()}:{self.p()}']
        if k == 'bc': return [f'bc:{self.ty()}:{self.p()}']
        if k == 'ee': return [f'ee:{self.ty()}:{self.ent()}:{self.p()}']
        if k == 'ins': return [f'ins:{self.ty()}:{self.ent()}:{r.randint(0, 2)}']
        if k == 'mut': return [f'mut:{self.ty()}:{self.ent()}:{r.randint(0, 2)}']
        if k == 'sin': return [f'sin:{self.ty()}:{self.ent()}:{r.randint(0, 2)}']
        if k == 'gnr': return [f'gnr:{self.ty()}:{self.ent()}:{r.randint(0, 2)}']
        if k == 'rd': return [f'rd:{self.ty()}:{self.ent()}']
        if k == 'rm': return [f'rm:{self.ty()}:{self.ent()}']
        if k == 'dsp': return [f'{r.choice(["dsp", "dsp", "dspr"])}:{self.ent()}']
        if k == 'dspsys': return [f'dsp:{self.target()}']
        if k == 'tres': return [f'tres:{self.ty()}']
        if k == 'sres': return [f'sres:{self.ty()}:{r.randint(0, 2)}']
        if k == 'nres': return [f'nres:{self.ty()}:{r.randint(0, 2)}']
        if k == 'spe': return [f'spe:{self.ent()}']
        if k == 'spawn': return self.spawn_action() or [f'bc:0:{self.p()}']
        if k == 'reg':
            self.tok += 1; self.tokens.append(self.tok)
            return [f'reg:{self.tok}:{r.choice("pcr")}:{self.r.choice(self.spawned or self.sys)}:{self.bundle()}']
        if k == 'rev':
            if not self.tokens: return [f'bc:0:{self.p()}']
            return [f'rev:{r.choice(self.tokens)}']
        if k == 'gc': return ['gc']
        if k == 'poll': return ['poll']
        if k == 'w':
            wi = r.choice([0, 1])
            kk = r.choice(['wra', 'wra', 'wrr', 'wrun'])
            if kk == 'wrun': return [f'wrun:{wi}']
            return [f'{kk}:{wi}:{self.bundle(allow_empty=False)}']
        if k == 'x':
            xi = r.choice([0, 1])
            if r.random() < 0.6: return [f'xra:{xi}:{self.ent()}:{r.randint(0, 5)}']
            shapes = {0: ['emut.0', 'ee.0'], 1: ['eins.0', 'erem.1', 'emut.1']}
            e = self.ent()
            ts = [f'{t}.{e}' for t in shapes[xi] if r.random() < 0.6]
            # removal bundles naming several entities: partial removal for some, last trigger for others, unregistered ones
            for _ in range(r.choice([0, 0, 1, 1, 2])):
                e2 = r.choice(self.ents); ts += [f'{t}.{e2}' for t in shapes[xi] if r.random() < 0.7]
            return [f'xrr:{xi}:[' + ','.join(ts) + ']']
        raise AssertionError(k)

    def burst(self):
        """2-4 deliveries of related kinds in a row (several events pending for one system, several removals
        between two polls, several reactors hit by one key)"""
        r = self.r
        k = r.choice(['sev', 'bc', 'ee', 'rm', 'mix', 'runs', 'insrm', 'dsps'])
        if self.profile == 'once' and r.random() < 0.4: k = r.choice(['dsps', 'dsps', 'bc', 'ee'])
        n = r.randint(2, 4)
        if k == 'dsps': return [f'dsp:{e}' for e in r.sample(self.ents, min(n, len(self.ents)))]
        if k == 'sev':
            t = self.target(); return [f'sev:{t}:{self.ty()}:{self.p()}' for _ in range(n)]
        if k == 'bc': return [f'bc:{self.ty()}:{self.p()}' for _ in range(n)]
        if k == 'ee':
            e = self.ent(); return [f'ee:{self.ty()}:{e}:{self.p()}' for _ in range(n)]
        if k == 'rm':
            c = self.ty(); return [f'rm:{c}:{e}' for e in r.sample(self.ents, min(n, len(self.ents)))]
        if k == 'runs':
            t = self.target(); u = self.target(); return [f'run:{t}', f'sev:{u}:0:{self.p()}', f'sev:{u}:0:{self.p()}', f'sev:{t}:0:{self.p()}'][:n + 1]
        if k == 'insrm':
            c = self.ty(); e = self.ent(); return [f'ins:{c}:{e}:1', f'rm:{c}:{e}', f'ins:{c}:{e}:2', f'rm:{c}:{e}'][:n]
        t = self.target()
        out = []
        for _ in range(n):
            out += r.choice([[f'sev:{t}:{self.ty()}:{self.p()}'], [f'bc:{self.ty()}:{self.p()}'], [f'ee:{self.ty()}:{self.ent()}:{self.p()}'], [f'run:{t}'], [f'mut:0:{self.ent()}:{r.randint(0,2)}']])
        return out

    def actions(self, lo, hi):
        out = []
        for _ in range(self.r.randint(lo, hi)):
            if self.r.random() < 0.18: out += self.burst()
            else: out += self.action()
        return spawn_first(out)

    def build(self, name):
        r = self.r
        L = self.lines
        L.append(f'prog {name}')
        L.append('ents ' + ' '.join(map(str, self.ents)))
        for s in self.sys:
            kind = 'excl' if r.random() < 0.25 else 'plain'
            err = 'err' if r.random() < 0.2 else 'unit'
            take = 'take' if r.random() < 0.6 else 'ign'
            L.append(f'sys {s} {kind} {err} {take}')
        for i, s in self.wsys.items():
            L.append(f'sys {s} plain unit {"take" if r.random() < 0.5 else "ign"}')
            L.append(f'wr {i} {s}')
        for i, s in self.xsys.items():
            L.append(f'sys {s} plain unit ign x{i}')
            L.append(f'xr {i} {s} ' + ('0,1' if i == 0 else '2,3,4'))
        tops = []
        # setup op: entities, a few reactors, some components
        setup = [f'spe:{e}' for e in self.ents if r.random() < 0.9]
        for _ in range(r.randint(1, max(1, len(self.sys) - 1))):
            a = self.spawn_action()
            if a: setup += a
        for e in self.ents:
            for c in TYPES:
                if r.random() < (0.5 if c == 0 else 0.25): setup.append(f'ins:{c}:{e}:{r.randint(0, 2)}')
        if self.use_x:
            for e in self.ents:
                if r.random() < 0.5: setup.append(f'xra:{r.choice([0, 1])}:{e}:{r.randint(0, 3)}')
        # template (wave i, C11-i): a reactor with two despawn triggers that, while it runs, despawns both targets and
        # queues another command — the nested runner polls while the reactor is still executing, so both despawn
        # reactions are pending for it at once and are replayed oldest first
        pair = None
        if self.profile in ('lifetime', 'once', 'stale', 'recursion') and len(self.spawned) >= 2 and len(self.ents) >= 2 and r.random() < 0.2:
            s_, h_ = r.sample(self.spawned, 2)
            e1, e2 = r.sample(self.ents, 2)
            self.tok += 1; self.tokens.append(self.tok)
            setup.append(f'reg:{self.tok}:{r.choice("ccrp")}:{s_}:[dsp.{e1},dsp.{e2}' + (f',dsp.{r.choice(self.ents)}' if r.random() < 0.3 else '') + ']')
            pair = (s_, [f'dsp:{e1}', f'dsp:{e2}', r.choice([f'run:{h_}', f'sev:{h_}:0:{self.p()}', f'run:{h_}'])])
        tops.append(('flush', spawn_first(setup)))
        if pair: tops.append(('flush', [f'run:{pair[0]}']))
        nops = r.randint(2, 5)
        for _ in range(nops):
            kind = r.choices(['flush', 'direct', 'frame'], weights=[5, 2, 2 if self.profile != 'poll' else 6])[0]
            if kind == 'frame':
                nb = r.randint(0, 3)
                tops.append(('frame', [self.actions(0, 3) for _ in range(nb)]))
            else:
                tops.append((kind, self.actions(1, 5)))
        # scripts: systems spawned somewhere get scripts for their first runs
        all_sys = list(self.sys) + list(self.wsys.values()) + list(self.xsys.values())
        for s in all_sys:
            nruns = r.choice([0, 1, 1, 2, 2, 3]) if self.profile != 'recursion' else r.choice([1, 2, 2, 3, 4])
            if pair and s == pair[0]: nruns = max(nruns, 1)
            for run in range(nruns):
                acts = self.actions(0, 3 if self.profile != 'recursion' else 4)
                if pair and s == pair[0] and run == 0: acts = spawn_first(pair[1] + acts)
                if s in self.xsys.values():
                    acts = [a for a in acts]
                if acts: L.append(f'script {s} {run} ' + ' '.join(acts))
        for kind, body in tops:
            if kind == 'frame':
                L.append('top frame ' + ' | '.join(' '.join(b) for b in body) if body else 'top frame')
            else:
                L.append(f'top {kind} ' + ' '.join(body))
        return '\n'.join(L) + '\n'

def spawn_first(acts):
    """Bevy's Commands::spawn panics (B0003) if the reserved entity is despawned before the spawn command is applied;
    a list of deferred actions therefore issues its system-spawning actions first (see DESIGN, wf rule `spawn_first`)."""
    def is_spawn(a): return a.split(':')[0] in ('sps', 'on', 'onp', 'onr')
    return [a for a in acts if is_spawn(a)] + [a for a in acts if not is_spawn(a)]

def generate(profile, seed, idx):
    rng = random.Random((seed * 1000003 + idx) ^ hash_profile(profile))
    prof = profile
    if profile == 'mixed':
        prof = rng.choice(['dispatch', 'recursion', 'lifetime', 'poll', 'accessor', 'stale', 'xw', 'once', 'mixed'])
    g = G(rng, prof)
    return g.build(f'{profile}-{seed}-{idx}')

def hash_profile(p):
    h = 0
    for ch in p: h = (h * 131 + ord(ch)) & 0xFFFFFFFF
    return h

if __name__ == '__main__':
    profile, seed, count, outdir = sys.argv[1], int(sys.argv[2]), int(sys.argv[3]), sys.argv[4]
    os.makedirs(outdir, exist_ok=True)
    for i in range(count):
        open(os.path.join(outdir, f'{profile}-{seed}-{i:05d}.prog'), 'w').write(generate(profile, seed, i))
