#!/bin/bash
# seeded_matrix.sh [--all-checks] [<seeded-id> ...]
# Regression test of the machinery itself: for every archived breaking change (seeded/<id>/patch.diff) apply it to
# /repo's working tree, run the check of the property it was written against (or every check with --all-checks),
# and undo it straight afterwards.  Prints one line per (change, check): V = VIOLATION reported, ok = passed.
# Exit 0 iff every change was reported by the check of its own property and /repo is clean again at the end.
# /repo must be clean when this starts; nothing is ever committed there.  Evidence files are rewritten by the runs on
# the changed tree, so the quick checks are re-run on the clean tree at the end.
cd /verif
all=0; [ "$1" = "--all-checks" ] && { all=1; shift; }
[ -n "$(git -C /repo status --short)" ] && { echo "/repo is not clean"; exit 2; }
ids=$(python3 -c "import json;print(' '.join(x['property_id'] for x in json.load(open('/verif/MANIFEST.json'))['checks']))")
names=${@:-$(ls seeded)}
miss=0
for n in $names; do
  own=$(python3 -c "import json;print(json.load(open('/verif/seeded/$n/meta.json'))['breaks'])")
  git -C /repo apply /verif/seeded/$n/patch.diff || { echo "$n APPLYFAIL"; miss=1; continue; }
  if [ $all = 1 ]; then cs=$ids; else cs=$own; fi
  for c in $cs; do
    r=$(./check $c 2>&1 | tail -1)
    case "$r" in VIOLATION*) v=V;; OK*) v=ok;; *) v="?";; esac
    echo -e "$n\t$c\t$v"
    [ "$c" = "$own" ] && [ "$v" != V ] && { echo "MISSED: $n is not reported by ./check $own"; miss=1; }
  done
  git -C /repo checkout -q -- .
done
[ -n "$(git -C /repo status --short)" ] && { echo "/repo not clean after the run"; miss=1; }
for c in $ids; do ./check $c > /dev/null 2>&1 || { echo "clean tree: ./check $c does not pass"; miss=1; }; done
exit $miss
