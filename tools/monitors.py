"""Model-free oracles over implementation logs: they look only at the program text and the log printed by the harness.
A monitor returns None (nothing wrong found) or a string describing the violation. They classify a broken
correspondence into "concrete failing input" vs "no-failing-input-found" and run on every log as a redundant oracle."""
import re

# ---------------------------------------------------------------------------------------------------------------
def parse_prog(text):
    """actions by occurrence id, system declarations"""
    occ = {}
    sysd = {}
    top_i = 0
    for line in text.split('\n'):
        ws = line.split('#')[0].split()
        if not ws: continue
        if ws[0] == 'sys':
            sysd[ws[1]] = {'kind': ws[2], 'err': ws[3] == 'err', 'take': ws[4] == 'take', 'x': ws[5] if len(ws) > 5 else None}
        elif ws[0] == 'script':
            for i, a in enumerate(ws[3:]): occ[f's{ws[1]}.{ws[2]}.{i}'] = a
        elif ws[0] == 'top':
            acts = [w for w in ws[2:] if w != '|']
            for i, a in enumerate(acts): occ[f't{top_i}.{i}'] = a
            top_i += 1
    return occ, sysd

def payload_table(occ):
    """payload id -> (kind, type, extra) from the send actions of the program"""
    t = {}
    for o, a in occ.items():
        p = a.split(':')
        if p[0] == 'bc': t[p[2]] = ('b', p[1], None, o)
        elif p[0] == 'ee': t[p[3]] = ('e', p[1], p[2], o)
        elif p[0] == 'sev': t[p[3]] = ('s', p[2], p[1], o)
    return t

def sample_of(ws):
    """ws = words after 'run sys runno captured' -> list of (tag, type, value)"""
    out = []
    for w in ws:
        k, v = w.split('=', 1)
        if k in ('d', 'l'): out.append((k, None, v))
        else: out.append((k[0], k[1:], v))
    return out

# ---------------------------------------------------------------------------------------------------------------
def accumulate_stats(stats, prog_text, impl):
    posts = {}
    ran = False
    for l in impl:
        if l.startswith('run '): ran = True; stats['runs'] += 1
        elif l.startswith('drop '): stats['drops'] += 1
        elif l.startswith('post '):
            s = l.split()[1]; posts[s] = posts.get(s, 0) + 1
    if posts: stats['with_postpone'] += 1
    if any(v >= 2 for v in posts.values()): stats['with_multi_postpone'] += 1
    if any(l.startswith('abort ') for l in impl): stats['with_abort'] += 1
    if any(l.startswith('dropsys ') for l in impl): stats['with_gc_despawn'] += 1
    if not ran: stats['vacuous'] += 1
    for m in re.finditer(r'(?:^|\s)([a-z]+)(?::|\s|$)', '\n'.join(x for x in prog_text.split('\n') if x.startswith(('script', 'top')))):
        k = m.group(1)
        if k in ('script', 'top', 'flush', 'direct', 'frame'): continue
        stats['action_kinds'][k] = stats['action_kinds'].get(k, 0) + 1

# ---------------------------------------------------------------------------------------------------------------
def m_panic(occ, sysd, impl):
    for l in impl:
        if l.startswith('panic'): return 'the implementation panicked: ' + l
        if l.startswith('driver-error') or l.startswith('<missing>'): return 'harness failure: ' + l
    return None

def m_quiescent(occ, sysd, impl):
    for l in impl:
        if not l.startswith('top '): continue
        kv = dict(w.split('=', 1) for w in l.split()[2:])
        for k, want in (('counter', '0'), ('buffered', '0'), ('ev', '0,0'), ('se', '0,0'), ('er', '0,0'), ('de', '0,0,0'), ('taken', '0'), ('data', '0')):
            if kv.get(k) != want:
                return f'residue after top-level op {l.split()[1]}: {k}={kv.get(k)} (expected {want})'
    return None

def m_readers(occ, sysd, impl):
    """every reader sample is consistent with a send action of the program; at most one event kind per run;
    a payload is never read after it was dropped; system-event payloads are read by their addressee only, once"""
    pt = payload_table(occ)
    dropped = set()
    sev_read = set()
    for l in impl:
        ws = l.split()
        if ws and ws[0] == 'drop': dropped.add(ws[1]); continue
        if not ws or ws[0] != 'run': continue
        sys_ = ws[1]
        sm = sample_of(ws[4:])
        if any(v == 'TAKEN-TWICE' for _, _, v in sm): return f'system event taken twice in one run: {l}'
        kinds = set(k for k, _, _ in sm if k != 'l')
        if len(kinds) > 1: return f'a run sees more than one kind of event: {l}'
        if len([1 for k, _, _ in sm if k != 'l']) > 1: return f'a run sees more than one event: {l}'
        for k, ty, v in sm:
            if k == 'b':
                if v not in pt or pt[v][0] != 'b' or pt[v][1] != ty: return f'broadcast reader returned a payload that no broadcast of that type carried: {l}'
                if v in dropped: return f'payload {v} read after it was dropped: {l}'
            elif k == 'e':
                e, p = v.split(':')
                if p not in pt or pt[p][0] != 'e' or pt[p][1] != ty or pt[p][2] != e.lstrip('?'): return f'entity-event reader returned data of another event: {l}'
                if p in dropped: return f'payload {p} read after it was dropped: {l}'
            elif k == 's':
                # the take itself drops the payload just before the run line is printed
                if v not in pt or pt[v][0] != 's' or pt[v][1] != ty or pt[v][2] != sys_: return f'system-event reader returned a payload not addressed to this system: {l}'
                if v in sev_read: return f'system event payload {v} delivered twice: {l}'
                sev_read.add(v)
    return None

def m_order(occ, sysd, impl):
    """C12: system events sent to one `take` target from one script arrive in the order sent"""
    pt = payload_table(occ)
    # per (sender context, target): payload list in send order
    groups = {}
    for p, (k, ty, tgt, o) in pt.items():
        if k != 's': continue
        ctx = o.rsplit('.', 1)[0]
        groups.setdefault((ctx, tgt), []).append((int(o.rsplit('.', 1)[1]), p))
    seen = {}
    for l in impl:
        ws = l.split()
        if not ws or ws[0] != 'run': continue
        for k, ty, v in sample_of(ws[4:]):
            if k == 's': seen.setdefault(ws[1], []).append(v)
    for (ctx, tgt), lst in groups.items():
        want = [p for _, p in sorted(lst)]
        got = [p for p in seen.get(tgt, []) if p in want]
        want_seen = [p for p in want if p in got]
        if got != want_seen:
            return f'system events sent by {ctx} to {tgt} arrived out of order: sent {want_seen}, read {got}'
    return None

def m_payloads(occ, sysd, impl):
    """C05: every payload whose send action was reached is dropped exactly once before its top-level op ends"""
    pt = payload_table(occ)
    sent, dropped = [], {}
    for l in impl:
        ws = l.split()
        if not ws: continue
        if ws[0] == 'mark':
            a = occ.get(ws[1], '')
            p = a.split(':')
            if p[0] == 'bc': sent.append(p[2])
            elif p[0] == 'ee': sent.append(p[3])
            elif p[0] == 'sev': sent.append(p[3])
        elif ws[0] == 'drop':
            dropped[ws[1]] = dropped.get(ws[1], 0) + 1
            if dropped[ws[1]] > 1: return f'payload {ws[1]} dropped twice'
        elif ws[0] == 'top':
            for p in sent:
                if dropped.get(p, 0) != 1: return f'payload {p} not released by the end of top-level op {ws[1]} (drops: {dropped.get(p, 0)})'
            kv = dict(w.split('=', 1) for w in ws[2:])
            if kv.get('data') != '0': return f'event bookkeeping entity outlives the tree (op {ws[1]}: data={kv.get("data")})'
    return None

def m_runs(occ, sysd, impl):
    """C02: runner events are well nested; an entered command is aborted, postponed or run exactly once; every postponed
    command re-enters before the top-level op ends; start is followed by the body and by end"""
    stack = []
    pending = {}
    for l in impl:
        ws = l.split()
        if not ws: continue
        if ws[0] == 'enter':
            key = (ws[1], ws[2])
            if pending.get(key, 0) > 0: pending[key] -= 1
            stack.append({'key': key, 'resolved': None, 'ran': False, 'ended': False})
        elif ws[0] in ('abort', 'post', 'start'):
            if not stack or stack[-1]['key'] != (ws[1], ws[2]): return f'runner event outside its frame: {l}'
            if stack[-1]['resolved'] is not None: return f'command resolved twice: {l}'
            stack[-1]['resolved'] = ws[0]
            if ws[0] == 'post': pending[(ws[1], ws[2])] = pending.get((ws[1], ws[2]), 0) + 1
        elif ws[0] == 'run':
            fr = next((f for f in reversed(stack) if f['resolved'] == 'start' and not f['ended'] and f['key'][0] == ws[1]), None)
            if fr is None: return f'a system body ran outside a started runner frame: {l}'
            if fr['ran']: return f'a system body ran twice for one command: {l}'
            fr['ran'] = True
        elif ws[0] == 'end':
            fr = next((f for f in reversed(stack) if f['key'] == (ws[1], ws[2]) and f['resolved'] == 'start' and not f['ended']), None)
            if fr is None: return f'end without start: {l}'
            fr['ended'] = True
        elif ws[0] == 'exit':
            if not stack or stack[-1]['key'] != (ws[1], ws[2]): return f'exit does not match the innermost frame: {l}'
            fr = stack.pop()
            if fr['resolved'] is None: return f'command neither run, postponed nor aborted: enter {ws[1]} {ws[2]}'
            if fr['resolved'] == 'start' and not fr['ended']: return f'started command never ended: {l}'
        elif ws[0] == 'discard':
            key = (ws[1], ws[2])
            if pending.get(key, 0) > 0: pending[key] -= 1
        elif ws[0] == 'top':
            if stack: return f'runner frames still open at the end of op {ws[1]}'
            left = [k for k, v in pending.items() if v > 0]
            if left: return f'postponed command(s) {left} never ran and were never aborted by the end of op {ws[1]}'
    return None

def m_state(occ, sysd, impl):
    """C13: the k-th run of a system sees Local = k and captured = k; nothing runs after its state was dropped"""
    nxt, dead = {}, set()
    for l in impl:
        ws = l.split()
        if not ws: continue
        if ws[0] == 'run':
            s = ws[1]
            if s in dead: return f'system {s} ran after its state was dropped: {l}'
            if int(ws[2]) != nxt.get(s, 0) or int(ws[3]) != nxt.get(s, 0):
                return f'system {s}: run #{nxt.get(s, 0)} saw Local={ws[2]} captured={ws[3]}'
            nxt[s] = nxt.get(s, 0) + 1
        elif ws[0] == 'dropsys':
            if ws[1] in dead: return f'state of system {ws[1]} dropped twice'
            dead.add(ws[1])
    return None

MONITORS = {
    'C01': [m_panic, m_readers],
    'C02': [m_panic, m_runs],
    'C03': [m_panic, m_readers],
    'C04': [m_panic, m_readers],
    'C05': [m_panic, m_payloads],
    'C06': [m_panic],
    'C07': [m_panic],
    'C08': [m_panic],
    'C09': [m_panic, m_runs],
    'C11': [m_panic, m_quiescent],
    'C12': [m_panic, m_order, m_readers],
    'C13': [m_panic, m_state],
    'C14': [m_panic],
    'C15': [m_panic],
    'C16': [m_panic],
    'C18': [m_panic, m_quiescent, m_payloads],
}

def run_monitor(cid, prog_text, impl):
    occ, sysd = parse_prog(prog_text)
    for m in MONITORS.get(cid, [m_panic]):
        r = m(occ, sysd, impl)
        if r is not None: return f'[{m.__name__}] {r}'
    return None
