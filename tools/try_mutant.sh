#!/bin/bash
# try_mutant.sh <patch.diff> [profiles...]: apply to /repo, rebuild harness, rerun existing /tmp/g_* dirs, revert.
patch=$1; shift
profs=${@:-"dispatch recursion lifetime poll accessor stale xw mixed"}
cd /repo && git apply $patch || exit 1
cd /verif/harness && cp /repo/Cargo.lock . && RUSTFLAGS="--cfg bevy_cobweb_verif" CARGO_NET_OFFLINE=true cargo build --offline 2>&1 | grep -E "^error|Finished"
for p in $profs; do echo "-- $p"; /verif/tools/cmp.sh /tmp/g_$p | tail -2; done
cd /repo && git checkout -- . && git status --short | head -3
cd /verif/harness && RUSTFLAGS="--cfg bevy_cobweb_verif" CARGO_NET_OFFLINE=true cargo build --offline 2>&1 | grep -E "^error|Finished"
