#!/bin/bash
# cmp.sh <dir>: run harness and model over all programs in <dir>, list disagreements
d=$1
/verif/harness/target/debug/harness $d/*.prog; /verif/model/model_run $d/*.prog
n=0; bad=0
for f in $d/*.prog; do n=$((n+1)); if ! cmp -s $f.model.log $f.impl.log; then bad=$((bad+1)); echo "DIFF $f"; fi; done
echo "programs=$n disagreements=$bad"
