#!/bin/bash
# mk.sh [timeout-seconds]: build the Coq project; report errors, or TIMEOUT with the file being compiled
cd /verif/coq
T=${1:-300}
out=$(timeout $T make -j16 2>&1); rc=$?
if [ $rc -eq 124 ]; then echo "TIMEOUT after ${T}s"; echo "$out" | grep COQC | tail -3; pkill -f "coqc.*Cobweb" ; exit 124; fi
echo "$out" | grep -B2 -A25 "Error" | head -70
[ $rc -eq 0 ] && echo BUILD-OK
exit $rc
