//! Correspondence harness: interprets DSL programs (docs/INTERFACE.md) against the real bevy_cobweb crate through its
//! public API and prints the canonical log that the Coq model also produces.
//!
//! Usage: harness <file.prog>...   writes <file>.impl.log next to each program.
//!        harness -                reads one program from stdin, log on stdout.
#![allow(clippy::type_complexity)]

mod prog;
mod c10;
mod c17;

use bevy::ecs::system::{SystemParam, SystemState};
use bevy::prelude::*;
use bevy_cobweb::prelude::*;
use bevy_cobweb::react::verif::{self, RunnerEvent};
use prog::*;

use std::collections::HashMap;
use std::panic::{catch_unwind, AssertUnwindSafe};
use std::sync::{Arc, Mutex};

//-------------------------------------------------------------------------------------------------------------------
// log

static LOG: Mutex<Vec<String>> = Mutex::new(Vec::new());
static NAMES: Mutex<Option<Names>> = Mutex::new(None);

fn log(s: String) { let mut l = LOG.lock().unwrap_or_else(|e| e.into_inner()); if l.len() < 200_000 || s.starts_with("panic") { l.push(s); } }
// runaway guard: on the unchanged crate a program's bodies run a bounded number of times (scripts are indexed by the
// run number); a change that resets a system's state can make a self-running script loop forever
static RUNS: std::sync::atomic::AtomicUsize = std::sync::atomic::AtomicUsize::new(0);
const RUN_BUDGET: usize = 600;
fn over_budget() -> bool
{
    let n = RUNS.fetch_add(1, std::sync::atomic::Ordering::Relaxed);
    // unwind out of the whole top-level operation (caught by the driver, which logs `panic` and stops the program):
    // merely skipping the body's actions would still let an exponential number of already queued commands run
    if n >= RUN_BUDGET { panic!("run-budget-exceeded"); }
    false
}

#[derive(Default, Clone)]
struct Names
{
    fwd: HashMap<u32, Entity>,
    rev: HashMap<Entity, u32>,
    tokens: HashMap<u32, RevokeToken>,
}

fn with_names<T>(f: impl FnOnce(&mut Names) -> T) -> T
{
    let mut g = NAMES.lock().unwrap_or_else(|e| e.into_inner());
    f(g.as_mut().expect("names"))
}

const PLACEHOLDER_BASE: u32 = 0x7F00_0000;

/// Static id -> entity, at the time an action is issued. Unbound ids resolve to an entity that never exists.
fn resolve(id: u32) -> Entity
{
    with_names(|n| n.fwd.get(&id).copied()).unwrap_or_else(|| Entity::from_raw(PLACEHOLDER_BASE + id))
}

/// A system id is introduced by one action of the program; a second introduction is a no-op (DESIGN, wf rule).
fn is_bound(id: u32) -> bool { with_names(|n| n.fwd.contains_key(&id)) }

fn bind(id: u32, e: Entity)
{
    with_names(|n| { if !n.fwd.contains_key(&id) { n.fwd.insert(id, e); n.rev.insert(e, id); } });
}

fn pe(e: Entity) -> String
{
    if let Some(id) = with_names(|n| n.rev.get(&e).copied()) { return format!("{id}"); }
    if e.index() >= PLACEHOLDER_BASE { return format!("?{}", e.index() - PLACEHOLDER_BASE); }
    "#".to_string()
}

//-------------------------------------------------------------------------------------------------------------------
// type universe

/// Event payload; logs its own drop.
pub struct Payload(pub u32);
impl Drop for Payload { fn drop(&mut self) { log(format!("drop {}", self.0)); } }

pub struct Ev<const N: usize>(pub Payload);

#[derive(PartialEq, Clone, Copy, Debug)]
pub struct Cp<const N: usize>(pub u32);
impl<const N: usize> ReactComponent for Cp<N> {}

#[derive(PartialEq, Clone, Copy, Debug)]
pub struct Rs<const N: usize>(pub u32);
impl<const N: usize> ReactResource for Rs<N> {}

/// Canary captured by every system closure: logs when the system (and what it captured) is dropped.
struct Canary(u32);
impl Drop for Canary { fn drop(&mut self) { log(format!("dropsys {}", self.0)); } }

//-------------------------------------------------------------------------------------------------------------------
// dynamic trigger bundles

#[derive(Clone, Copy, Debug)]
pub enum DynTrig
{
    Bc(u32), Ee(u32, Entity), Aee(u32), Res(u32), Ins(u32), Mut(u32), Rem(u32),
    EIns(u32, Entity), EMut(u32, Entity), ERem(u32, Entity), Dsp(Entity), Nil,
}

pub const MAX_BUNDLE: usize = 24;

#[derive(Clone, Copy, Debug)]
pub struct DynBundle { n: usize, t: [DynTrig; MAX_BUNDLE] }

impl DynBundle
{
    fn from_triggers(ts: &[Trig]) -> Self
    {
        assert!(ts.len() <= MAX_BUNDLE);
        let mut t = [DynTrig::Nil; MAX_BUNDLE];
        for (i, x) in ts.iter().enumerate()
        {
            t[i] = match *x
            {
                Trig::Bc(ty) => DynTrig::Bc(ty), Trig::Ee(ty, e) => DynTrig::Ee(ty, resolve(e)), Trig::Aee(ty) => DynTrig::Aee(ty),
                Trig::Res(r) => DynTrig::Res(r), Trig::Ins(c) => DynTrig::Ins(c), Trig::Mut(c) => DynTrig::Mut(c),
                Trig::Rem(c) => DynTrig::Rem(c), Trig::EIns(c, e) => DynTrig::EIns(c, resolve(e)),
                Trig::EMut(c, e) => DynTrig::EMut(c, resolve(e)), Trig::ERem(c, e) => DynTrig::ERem(c, resolve(e)),
                Trig::Dsp(e) => DynTrig::Dsp(resolve(e)),
            };
        }
        Self{ n: ts.len(), t }
    }
}

macro_rules! by_type {
    ($idx:expr, $f:ident, $gen:ident, ($($arg:expr),*), $($call:tt)*) => {
        match $idx { 0 => $f::<$gen<0>>($($arg),*)$($call)*, 1 => $f::<$gen<1>>($($arg),*)$($call)*, _ => panic!("type index out of range") }
    };
}

impl DynTrig
{
    fn reactor_type(&self) -> Option<ReactorType>
    {
        Some(match *self
        {
            DynTrig::Bc(ty) => by_type!(ty, broadcast, Ev, (), .reactor_type()),
            DynTrig::Ee(ty, e) => by_type!(ty, entity_event, Ev, (e), .reactor_type()),
            DynTrig::Aee(ty) => by_type!(ty, any_entity_event, Ev, (), .reactor_type()),
            DynTrig::Res(r) => by_type!(r, resource_mutation, Rs, (), .reactor_type()),
            DynTrig::Ins(c) => by_type!(c, insertion, Cp, (), .reactor_type()),
            DynTrig::Mut(c) => by_type!(c, mutation, Cp, (), .reactor_type()),
            DynTrig::Rem(c) => by_type!(c, removal, Cp, (), .reactor_type()),
            DynTrig::EIns(c, e) => by_type!(c, entity_insertion, Cp, (e), .reactor_type()),
            DynTrig::EMut(c, e) => by_type!(c, entity_mutation, Cp, (e), .reactor_type()),
            DynTrig::ERem(c, e) => by_type!(c, entity_removal, Cp, (e), .reactor_type()),
            DynTrig::Dsp(e) => despawn(e).reactor_type(),
            DynTrig::Nil => return None,
        })
    }

    fn register(&self, commands: &mut Commands, handle: &ReactorHandle)
    {
        match *self
        {
            DynTrig::Bc(ty) => by_type!(ty, broadcast, Ev, (), .register(commands, handle)),
            DynTrig::Ee(ty, e) => by_type!(ty, entity_event, Ev, (e), .register(commands, handle)),
            DynTrig::Aee(ty) => by_type!(ty, any_entity_event, Ev, (), .register(commands, handle)),
            DynTrig::Res(r) => by_type!(r, resource_mutation, Rs, (), .register(commands, handle)),
            DynTrig::Ins(c) => by_type!(c, insertion, Cp, (), .register(commands, handle)),
            DynTrig::Mut(c) => by_type!(c, mutation, Cp, (), .register(commands, handle)),
            DynTrig::Rem(c) => by_type!(c, removal, Cp, (), .register(commands, handle)),
            DynTrig::EIns(c, e) => by_type!(c, entity_insertion, Cp, (e), .register(commands, handle)),
            DynTrig::EMut(c, e) => by_type!(c, entity_mutation, Cp, (e), .register(commands, handle)),
            DynTrig::ERem(c, e) => by_type!(c, entity_removal, Cp, (e), .register(commands, handle)),
            DynTrig::Dsp(e) => despawn(e).register(commands, handle),
            DynTrig::Nil => (),
        }
    }
}

impl ReactionTriggerBundle for DynBundle
{
    fn len(&self) -> usize { self.n }

    fn collect_reactor_types(self, func: &mut impl FnMut(ReactorType))
    {
        for i in 0..self.n { if let Some(rt) = self.t[i].reactor_type() { func(rt); } }
    }

    fn register_triggers(self, commands: &mut Commands, handle: &ReactorHandle)
    {
        for i in 0..self.n { self.t[i].register(commands, handle); }
    }
}

//-------------------------------------------------------------------------------------------------------------------
// world reactors

pub struct Wr<const K: usize>(u32, Arc<Prog>);
impl<const K: usize> WorldReactor for Wr<K>
{
    type StartingTriggers = ();
    type Triggers = DynBundle;
    fn reactor(self) -> SystemCommandCallback
    {
        let sd = self.1.sys[&self.0].clone();
        make_callback(sd, self.1.clone())
    }
}

pub struct Xr<const K: usize>(u32, Arc<Prog>);
impl EntityWorldReactor for Xr<0>
{
    type Triggers = (EntityMutationTrigger<Cp<0>>, EntityEventTrigger<Ev<0>>);
    type Local = u32;
    fn reactor(self) -> SystemCommandCallback { make_x_callback::<Xr<0>>(self.0, self.1) }
}
impl EntityWorldReactor for Xr<1>
{
    type Triggers = (EntityInsertionTrigger<Cp<0>>, EntityRemovalTrigger<Cp<1>>, EntityMutationTrigger<Cp<1>>);
    type Local = u32;
    fn reactor(self) -> SystemCommandCallback { make_x_callback::<Xr<1>>(self.0, self.1) }
}

//-------------------------------------------------------------------------------------------------------------------
// readers

#[derive(SystemParam)]
pub struct Readers<'w, 's>
{
    b0: BroadcastEvent<'w, 's, Ev<0>>, b1: BroadcastEvent<'w, 's, Ev<1>>,
    e0: EntityEvent<'w, 's, Ev<0>>, e1: EntityEvent<'w, 's, Ev<1>>,
    s0: SystemEvent<'w, 's, Ev<0>>, s1: SystemEvent<'w, 's, Ev<1>>,
    i0: InsertionEvent<'w, 's, Cp<0>>, i1: InsertionEvent<'w, 's, Cp<1>>,
    m0: MutationEvent<'w, 's, Cp<0>>, m1: MutationEvent<'w, 's, Cp<1>>,
    r0: RemovalEvent<'w, 's, Cp<0>>, r1: RemovalEvent<'w, 's, Cp<1>>,
    d: DespawnEvent<'w>,
}

/// Samples every reader; returns the canonical text and whether some entity-scoped reader was non-empty.
fn sample_readers(r: &mut Readers, take: bool) -> (String, bool)
{
    let mut s = String::new();
    let mut entity_reader = false;
    if let Ok(x) = r.b0.try_read() { s += &format!(" b0={}", x.0.0); }
    if let Ok(x) = r.b1.try_read() { s += &format!(" b1={}", x.0.0); }
    if let Ok((e, x)) = r.e0.try_read() { s += &format!(" e0={}:{}", pe(e), x.0.0); entity_reader = true; }
    if let Ok((e, x)) = r.e1.try_read() { s += &format!(" e1={}:{}", pe(e), x.0.0); entity_reader = true; }
    if take
    {
        if let Ok(x) = r.s0.take()
        {
            let p = x.0.0; drop(x);
            if r.s0.take().is_ok() { s += " s0=TAKEN-TWICE"; }
            s += &format!(" s0={p}");
        }
        if let Ok(x) = r.s1.take()
        {
            let p = x.0.0; drop(x);
            if r.s1.take().is_ok() { s += " s1=TAKEN-TWICE"; }
            s += &format!(" s1={p}");
        }
    }
    if let Ok(e) = r.i0.get() { s += &format!(" i0={}", pe(e)); entity_reader = true; }
    if let Ok(e) = r.i1.get() { s += &format!(" i1={}", pe(e)); entity_reader = true; }
    if let Ok(e) = r.m0.get() { s += &format!(" m0={}", pe(e)); entity_reader = true; }
    if let Ok(e) = r.m1.get() { s += &format!(" m1={}", pe(e)); entity_reader = true; }
    if let Ok(e) = r.r0.get() { s += &format!(" r0={}", pe(e)); entity_reader = true; }
    if let Ok(e) = r.r1.get() { s += &format!(" r1={}", pe(e)); entity_reader = true; }
    if let Ok(e) = r.d.get() { s += &format!(" d={}", pe(e)); }
    (s, entity_reader)
}

//-------------------------------------------------------------------------------------------------------------------
// actions

#[derive(SystemParam)]
pub struct Ctx<'w, 's>
{
    c: Commands<'w, 's>,
    c0: ReactiveMut<'w, 's, Cp<0>>,
    c1: ReactiveMut<'w, 's, Cp<1>>,
    r0: ReactResMut<'w, Rs<0>>,
    r1: ReactResMut<'w, Rs<1>>,
    w0: Reactor<'w, Wr<0>>,
    w1: Reactor<'w, Wr<1>>,
    prog: Res<'w, ProgRes>,
}

/// Reactor / system-command bodies take a parameter whose Bevy-side validation can fail (`Populated` is invalid whenever
/// no user entity is alive): the crate runs its systems without consulting `validate_param`, so the body runs
/// regardless; a change that starts skipping or mishandling systems with currently invalid parameters becomes visible.
#[derive(Component)]
pub struct PopMarker;

#[derive(Resource, Clone)]
pub struct ProgRes(Arc<Prog>);

fn mark(c: &mut Commands, occ: &str)
{
    let o = occ.to_string();
    c.queue(move |_: &mut World| log(format!("mark {o}")));
}

macro_rules! comp {
    ($ctx:expr, $c:expr, $m:ident $(, $arg:expr)*) => {
        match $c { 0 => $ctx.c0.$m($($arg),*).map(|x| x.0).ok(), 1 => $ctx.c1.$m($($arg),*).map(|x| x.0).ok(), _ => panic!("component index") }
    };
}

fn do_action(ctx: &mut Ctx, occ: &str, a: &Action)
{
    let prog = ctx.prog.0.clone();
    match a
    {
        Action::Run(s) => { mark(&mut ctx.c, occ); ctx.c.queue(SystemCommand(resolve(*s))); }
        Action::Sev(s, ty, p) =>
        {
            mark(&mut ctx.c, occ);
            let t = SystemCommand(resolve(*s));
            match ty { 0 => ctx.c.send_system_event(t, Ev::<0>(Payload(*p))), _ => ctx.c.send_system_event(t, Ev::<1>(Payload(*p))) }
        }
        Action::Bc(ty, p) =>
        {
            mark(&mut ctx.c, occ);
            match ty { 0 => ctx.c.react().broadcast(Ev::<0>(Payload(*p))), _ => ctx.c.react().broadcast(Ev::<1>(Payload(*p))) }
        }
        Action::Ee(ty, e, p) =>
        {
            mark(&mut ctx.c, occ);
            let e = resolve(*e);
            match ty { 0 => ctx.c.react().entity_event(e, Ev::<0>(Payload(*p))), _ => ctx.c.react().entity_event(e, Ev::<1>(Payload(*p))) }
        }
        Action::Ins(c, e, v) =>
        {
            mark(&mut ctx.c, occ);
            let e = resolve(*e);
            match c { 0 => ctx.c.react().insert(e, Cp::<0>(*v)), _ => ctx.c.react().insert(e, Cp::<1>(*v)) }
        }
        Action::Mut(c, e, v) =>
        {
            log(format!("mark {occ}"));
            let e = resolve(*e);
            let ok = match c
            {
                0 => ctx.c0.get_mut(&mut ctx.c, e).map(|x| { x.0 = *v; }).is_ok(),
                _ => ctx.c1.get_mut(&mut ctx.c, e).map(|x| { x.0 = *v; }).is_ok(),
            };
            log(format!("ret {occ} {}", if ok { "ok" } else { "none" }));
        }
        Action::Sin(c, e, v) =>
        {
            log(format!("mark {occ}"));
            let e = resolve(*e);
            let old = match c
            {
                0 => ctx.c0.set_if_neq(&mut ctx.c, e, Cp::<0>(*v)).map(|x| x.0),
                _ => ctx.c1.set_if_neq(&mut ctx.c, e, Cp::<1>(*v)).map(|x| x.0),
            };
            log(format!("ret {occ} {}", old.map(|v| v.to_string()).unwrap_or("none".into())));
        }
        Action::Gnr(c, e, v) =>
        {
            log(format!("mark {occ}"));
            let e = resolve(*e);
            let ok = match c
            {
                0 => ctx.c0.get_noreact(e).map(|x| { x.0 = *v; }).is_ok(),
                _ => ctx.c1.get_noreact(e).map(|x| { x.0 = *v; }).is_ok(),
            };
            log(format!("ret {occ} {}", if ok { "ok" } else { "none" }));
        }
        Action::Rd(c, e) =>
        {
            log(format!("mark {occ}"));
            let e = resolve(*e);
            let v = comp!(ctx, *c, get, e);
            log(format!("ret {occ} {}", v.map(|v| v.to_string()).unwrap_or("none".into())));
        }
        Action::Rm(c, e) =>
        {
            mark(&mut ctx.c, occ);
            if let Some(mut ec) = ctx.c.get_entity(resolve(*e))
            {
                match c { 0 => { ec.remove::<React<Cp<0>>>(); } _ => { ec.remove::<React<Cp<1>>>(); } }
            }
        }
        Action::Dsp(e) =>
        {
            mark(&mut ctx.c, occ);
            if let Some(mut ec) = ctx.c.get_entity(resolve(*e)) { ec.despawn(); }
        }
        Action::Dspr(e) =>
        {
            mark(&mut ctx.c, occ);
            if let Some(ec) = ctx.c.get_entity(resolve(*e)) { ec.despawn_recursive(); }
        }
        Action::Tres(r) =>
        {
            log(format!("mark {occ}"));
            let v = match r
            {
                0 => { let x = ctx.r0.get_mut(&mut ctx.c); x.0 += 1; x.0 }
                _ => { let x = ctx.r1.get_mut(&mut ctx.c); x.0 += 1; x.0 }
            };
            log(format!("ret {occ} {v}"));
        }
        Action::Sres(r, v) =>
        {
            log(format!("mark {occ}"));
            let old = match r
            {
                0 => ctx.r0.set_if_neq(&mut ctx.c, Rs::<0>(*v)).map(|x| x.0),
                _ => ctx.r1.set_if_neq(&mut ctx.c, Rs::<1>(*v)).map(|x| x.0),
            };
            log(format!("ret {occ} {}", old.map(|v| v.to_string()).unwrap_or("none".into())));
        }
        Action::Nres(r, v) =>
        {
            log(format!("mark {occ}"));
            match r { 0 => ctx.r0.get_noreact().0 = *v, _ => ctx.r1.get_noreact().0 = *v }
            log(format!("ret {occ} ok"));
        }
        Action::Spe(e) =>
        {
            // spawn_empty + try_insert: the marker insertion must not turn into Bevy's B0003 panic when the reserved
            // entity is despawned by an earlier command of the same queue (the model's spe is a bare spawn_empty)
            let ent = ctx.c.spawn_empty().id();
            ctx.c.entity(ent).try_insert(PopMarker);
            bind(*e, ent);
            mark(&mut ctx.c, occ);
        }
        Action::Sps(s) =>
        {
            mark(&mut ctx.c, occ);
            if is_bound(*s) { return; }
            let sc = spawn_sys(&mut ctx.c, *s, &prog);
            bind(*s, *sc);
        }
        Action::Reg(tok, mode, s, b) =>
        {
            mark(&mut ctx.c, occ);
            let bundle = DynBundle::from_triggers(b);
            let mode = match mode { Mode::P => ReactorMode::Persistent, Mode::C => ReactorMode::Cleanup, Mode::R => ReactorMode::Revokable };
            if let Some(token) = ctx.c.react().with(bundle, SystemCommand(resolve(*s)), mode)
            {
                with_names(|n| { n.tokens.insert(*tok, token); });
            }
        }
        Action::On(s, b) =>
        {
            mark(&mut ctx.c, occ);
            if is_bound(*s) { return; }
            // `on` = spawn_system_command + with(Cleanup): the id must be bound before the bundle is resolved
            let sc = spawn_sys(&mut ctx.c, *s, &prog);
            bind(*s, *sc);
            let bundle = DynBundle::from_triggers(b);
            ctx.c.react().with(bundle, sc, ReactorMode::Cleanup);
        }
        Action::Onp(s, b) =>
        {
            mark(&mut ctx.c, occ);
            if is_bound(*s) { return; }
            let sc = spawn_sys(&mut ctx.c, *s, &prog);
            bind(*s, *sc);
            let bundle = DynBundle::from_triggers(b);
            ctx.c.react().with(bundle, sc, ReactorMode::Persistent);
        }
        Action::Onr(tok, s, b) =>
        {
            mark(&mut ctx.c, occ);
            if is_bound(*s) { return; }
            let sc = spawn_sys(&mut ctx.c, *s, &prog);
            bind(*s, *sc);
            let bundle = DynBundle::from_triggers(b);
            let token = ctx.c.react().with(bundle, sc, ReactorMode::Revokable).unwrap();
            with_names(|n| { n.tokens.insert(*tok, token); });
        }
        Action::Once(tok, s, b) =>
        {
            mark(&mut ctx.c, occ);
            if is_bound(*s) { return; }
            // the reactor entity is created inside `once`; bundles naming the reactor itself cannot exist
            let bundle = DynBundle::from_triggers(b);
            let token = once_sys(&mut ctx.c, *s, &prog, bundle);
            bind(*s, *SystemCommand::from(token.clone()));
            with_names(|n| { n.tokens.insert(*tok, token); });
        }
        Action::Rev(tok) =>
        {
            mark(&mut ctx.c, occ);
            if let Some(token) = with_names(|n| n.tokens.get(tok).cloned()) { ctx.c.react().revoke(token); }
        }
        Action::Wra(w, b) =>
        {
            mark(&mut ctx.c, occ);
            let bundle = DynBundle::from_triggers(b);
            match w { 0 => { ctx.w0.add(&mut ctx.c, bundle); } _ => { ctx.w1.add(&mut ctx.c, bundle); } }
        }
        Action::Wrr(w, b) =>
        {
            mark(&mut ctx.c, occ);
            let bundle = DynBundle::from_triggers(b);
            match w { 0 => { ctx.w0.remove(&mut ctx.c, bundle); } _ => { ctx.w1.remove(&mut ctx.c, bundle); } }
        }
        Action::Wrun(w) =>
        {
            mark(&mut ctx.c, occ);
            match w { 0 => { ctx.w0.run(&mut ctx.c); } _ => { ctx.w1.run(&mut ctx.c); } }
        }
        Action::Xra(x, e, v) =>
        {
            mark(&mut ctx.c, occ);
            if let Some(mut ec) = ctx.c.get_entity(resolve(*e))
            {
                match x { 0 => ec.add_world_reactor::<Xr<0>>(*v), _ => ec.add_world_reactor::<Xr<1>>(*v) }
            }
        }
        Action::Xrr(x, b) =>
        {
            mark(&mut ctx.c, occ);
            let bundle = DynBundle::from_triggers(b);
            match x
            {
                0 => ctx.c.syscall(bundle, |In(b): In<DynBundle>, mut c: Commands, r: EntityReactor<Xr<0>>| { r.remove(&mut c, b); }),
                _ => ctx.c.syscall(bundle, |In(b): In<DynBundle>, mut c: Commands, r: EntityReactor<Xr<1>>| { r.remove(&mut c, b); }),
            }
        }
        Action::Gc => { mark(&mut ctx.c, occ); ctx.c.queue(|w: &mut World| garbage_collect_entities(w)); }
        Action::Poll => { mark(&mut ctx.c, occ); ctx.c.queue(|w: &mut World| schedule_removal_and_despawn_reactors(w)); }
    }
}

//-------------------------------------------------------------------------------------------------------------------
// system bodies

fn script_of(prog: &Prog, sid: u32, run: u32) -> &[Action]
{
    prog.scripts.get(&(sid, run)).map(|v| v.as_slice()).unwrap_or(&[])
}

fn body_plain(sd: &SysDecl, prog: &Prog, captured: &mut u32, ctx: &mut Ctx, readers: &mut Readers, local: &mut Local<u32>, l: Option<String>)
{
    let (sample, _) = sample_readers(readers, sd.take);
    let run = **local;
    log(format!("run {} {} {}{}{}", sd.id, run, *captured, sample, l.unwrap_or_default()));
    **local += 1;
    *captured += 1;
    if over_budget() { return; }
    for (idx, a) in script_of(prog, sd.id, run).iter().enumerate()
    {
        do_action(ctx, &format!("s{}.{}.{}", sd.id, run, idx), a);
    }
}

fn body_excl(sd: &SysDecl, prog: &Prog, captured: &mut u32, runno: &mut u32, world: &mut World)
{
    let mut st: SystemState<Readers> = SystemState::new(world);
    let (sample, _) = { let mut r = st.get_mut(world); sample_readers(&mut r, sd.take) };
    let run = *runno;
    log(format!("run {} {} {}{}", sd.id, run, *captured, sample));
    *runno += 1;
    *captured += 1;
    if over_budget() { return; }
    for (idx, a) in script_of(prog, sd.id, run).iter().enumerate()
    {
        step_action(world, &format!("s{}.{}.{}", sd.id, run, idx), a);
    }
}

/// One action issued with exclusive world access and applied at once.
fn step_action(world: &mut World, occ: &str, a: &Action)
{
    let mut st: SystemState<Ctx> = SystemState::new(world);
    { let mut ctx = st.get_mut(world); do_action(&mut ctx, occ, a); }
    st.apply(world);
}

fn make_callback(sd: SysDecl, prog: Arc<Prog>) -> SystemCommandCallback
{
    let canary = Canary(sd.id);
    let mut captured = 0u32;
    match (sd.kind, sd.err)
    {
        (Kind::Plain, false) => SystemCommandCallback::new(
            move |mut ctx: Ctx, mut readers: Readers, mut local: Local<u32>, _pop: Populated<Entity, With<PopMarker>>|
            { let _ = &canary; body_plain(&sd, &prog, &mut captured, &mut ctx, &mut readers, &mut local, None); }),
        (Kind::Plain, true) => SystemCommandCallback::new(
            move |mut ctx: Ctx, mut readers: Readers, mut local: Local<u32>, _pop: Populated<Entity, With<PopMarker>>| -> DropErr
            { let _ = &canary; body_plain(&sd, &prog, &mut captured, &mut ctx, &mut readers, &mut local, None); Err(IgnoredError) }),
        (Kind::Excl, false) =>
        {
            SystemCommandCallback::new(move |world: &mut World, mut local: Local<u32>|
            { let _ = &canary; body_excl(&sd, &prog, &mut captured, &mut *local, world); })
        }
        (Kind::Excl, true) =>
        {
            SystemCommandCallback::new(move |world: &mut World, mut local: Local<u32>| -> DropErr
            { let _ = &canary; body_excl(&sd, &prog, &mut captured, &mut *local, world); Err(IgnoredError) })
        }
    }
}

fn make_x_callback<X: EntityWorldReactor<Local = u32>>(sid: u32, prog: Arc<Prog>) -> SystemCommandCallback
{
    let sd = prog.sys[&sid].clone();
    let canary = Canary(sid);
    let mut captured = 0u32;
    SystemCommandCallback::new(
        move |mut ctx: Ctx, mut readers: Readers, mut local: Local<u32>, mut xl: EntityLocal<X>|
        {
            let _ = &canary;
            // peek: is some entity-scoped reader non-empty? (sampling twice is harmless: X systems never `take`)
            let (_, entity_reader) = sample_readers(&mut readers, false);
            let l = if entity_reader
            {
                let src = xl.entity();
                match catch_unwind(AssertUnwindSafe(|| { let (_, d) = xl.get_mut(); let v = *d; *d += 1; v }))
                {
                    Ok(v) => Some(format!(" l={}:{}", pe(src), v)),
                    Err(_) => Some(format!(" l={}:missing", pe(src))),
                }
            } else { None };
            body_plain(&sd, &prog, &mut captured, &mut ctx, &mut readers, &mut local, l);
        })
}

/// commands.spawn_system_command(body)
fn spawn_sys(c: &mut Commands, sid: u32, prog: &Arc<Prog>) -> SystemCommand
{
    let sd = prog.sys.get(&sid).cloned().unwrap_or(SysDecl{ id: sid, kind: Kind::Plain, err: false, take: false, x: None });
    c.spawn_system_command_from(make_callback(sd, prog.clone()))
}

/// rc.once(bundle, body)
fn once_sys(c: &mut Commands, sid: u32, prog: &Arc<Prog>, bundle: DynBundle) -> RevokeToken
{
    let sd = prog.sys.get(&sid).cloned().unwrap_or(SysDecl{ id: sid, kind: Kind::Plain, err: false, take: false, x: None });
    let prog = prog.clone();
    let canary = Canary(sd.id);
    let mut captured = 0u32;
    match (sd.kind, sd.err)
    {
        (Kind::Plain, false) => c.react().once(bundle,
            move |mut ctx: Ctx, mut readers: Readers, mut local: Local<u32>, _pop: Populated<Entity, With<PopMarker>>|
            { let _ = &canary; body_plain(&sd, &prog, &mut captured, &mut ctx, &mut readers, &mut local, None); }),
        (Kind::Plain, true) => c.react().once(bundle,
            move |mut ctx: Ctx, mut readers: Readers, mut local: Local<u32>, _pop: Populated<Entity, With<PopMarker>>| -> DropErr
            { let _ = &canary; body_plain(&sd, &prog, &mut captured, &mut ctx, &mut readers, &mut local, None); Err(IgnoredError) }),
        (Kind::Excl, false) =>
        {
            c.react().once(bundle, move |world: &mut World, mut local: Local<u32>|
            { let _ = &canary; body_excl(&sd, &prog, &mut captured, &mut *local, world); })
        }
        (Kind::Excl, true) =>
        {
            c.react().once(bundle, move |world: &mut World, mut local: Local<u32>| -> DropErr
            { let _ = &canary; body_excl(&sd, &prog, &mut captured, &mut *local, world); Err(IgnoredError) })
        }
    }
}

//-------------------------------------------------------------------------------------------------------------------
// frames

#[derive(Resource, Default)]
struct CurrentFrame { op: usize, batches: Vec<Vec<Action>> }

fn batch_sys<const K: usize>(mut ctx: Ctx, frame: Res<CurrentFrame>)
{
    if K >= frame.batches.len() { return; }
    let start: usize = frame.batches[..K].iter().map(|b| b.len()).sum();
    for (i, a) in frame.batches[K].iter().enumerate()
    {
        do_action(&mut ctx, &format!("t{}.{}", frame.op, start + i), a);
    }
}

//-------------------------------------------------------------------------------------------------------------------
// driver

fn print_snapshot(i: usize, app: &mut App, prog: &Prog) -> String
{
    let world = app.world_mut();
    let s = verif::snapshot(world);
    let b = |x: bool| if x { 1 } else { 0 };
    let mut alive: Vec<u32> = prog.all_ids().into_iter().filter(|id| world.get_entity(resolve(*id)).is_ok()).collect();
    alive.sort();
    let mut xl: Vec<(u32, u32)> = Vec::new();
    // every id the program has bound so far (declared or not: `spe:9` binds the generator's stale id), as in the model
    let mut ids: Vec<u32> = with_names(|n| n.fwd.keys().copied().collect());
    for id in prog.ents.iter() { if !ids.contains(id) { ids.push(*id); } }
    for id in ids.iter()
    {
        let e = resolve(*id);
        if prog.xr.contains_key(&0) && verif::has_entity_world_local::<Xr<0>>(world, e) { xl.push((0, *id)); }
        if prog.xr.contains_key(&1) && verif::has_entity_world_local::<Xr<1>>(world, e) { xl.push((1, *id)); }
    }
    xl.sort();
    let commas = |v: &[usize]| v.iter().map(|x| x.to_string()).collect::<Vec<_>>().join(",");
    format!("top {i} counter={} buffered={} ev={},{} se={},{} er={},{} de={},{},{} systems={} taken={} ereactors={} data={} tables={} keys={} dead={} alive={} xlocal={}",
        s.counter, s.buffered, b(s.ev.0), s.ev.1, b(s.se.0), s.se.1, b(s.er.0), s.er.1, b(s.de.0), s.de.1, b(s.de.2),
        s.systems, s.taken, s.ereactors, s.data_entities, commas(&s.table_entries), commas(&s.table_keys), s.dead_handles,
        alive.iter().map(|x| x.to_string()).collect::<Vec<_>>().join(","),
        xl.iter().map(|(x, e)| format!("{x}:{e}")).collect::<Vec<_>>().join(","))
}

fn new_entities(world: &mut World, before: &[Entity]) -> Vec<Entity>
{
    world.iter_entities().map(|e| e.id()).filter(|e| !before.contains(e)).collect()
}

pub fn run_program(prog: Arc<Prog>) -> Vec<String>
{
    // big stack: a runaway nesting must end at the run budget, not in a stack overflow that kills the whole batch
    std::thread::Builder::new().stack_size(1 << 30).spawn(move || run_program_inner(prog)).unwrap().join()
        .unwrap_or_else(|_| vec!["panic harness-thread".to_string()])
}
fn run_program_inner(prog: Arc<Prog>) -> Vec<String>
{
    RUNS.store(0, std::sync::atomic::Ordering::Relaxed);
    LOG.lock().unwrap_or_else(|e| e.into_inner()).clear();
    *NAMES.lock().unwrap_or_else(|e| e.into_inner()) = Some(Names::default());

    verif::set_runner_sink(Some(Box::new(|ev: RunnerEvent| {
        match ev
        {
            RunnerEvent::Enter{ sys, ticket, idx } => log(format!("enter {} {} {}", pe(sys), ticket, idx)),
            RunnerEvent::Postpone{ sys, ticket } => log(format!("post {} {}", pe(sys), ticket)),
            RunnerEvent::Abort{ sys, ticket, why } => log(format!("abort {} {} {}", pe(sys), ticket, why)),
            RunnerEvent::Start{ sys, ticket } => log(format!("start {} {}", pe(sys), ticket)),
            RunnerEvent::End{ sys, ticket, reinserted } => log(format!("end {} {} {}", pe(sys), ticket, if reinserted { 1 } else { 0 })),
            RunnerEvent::Discard{ sys, ticket } => log(format!("discard {} {}", pe(sys), ticket)),
            RunnerEvent::Exit{ sys, ticket } => log(format!("exit {} {}", pe(sys), ticket)),
        }
    })));

    let result = catch_unwind(AssertUnwindSafe(|| {
        let mut app = App::new();
        app.add_plugins(ReactPlugin);
        app.insert_react_resource(Rs::<0>(0));
        app.insert_react_resource(Rs::<1>(0));
        app.insert_resource(ProgRes(prog.clone()));
        app.init_resource::<CurrentFrame>();
        app.add_systems(Update, (batch_sys::<0>, batch_sys::<1>, batch_sys::<2>, batch_sys::<3>).chain());

        // world reactors exist from the start; their system entities are found by difference
        for (idx, sid) in prog.wr.iter()
        {
            let before: Vec<Entity> = app.world_mut().iter_entities().map(|e| e.id()).collect();
            match idx { 0 => { app.add_world_reactor(Wr::<0>(*sid, prog.clone())); } _ => { app.add_world_reactor(Wr::<1>(*sid, prog.clone())); } }
            let new = new_entities(app.world_mut(), &before);
            assert_eq!(new.len(), 1);
            bind(*sid, new[0]);
        }
        for (idx, (sid, _shape)) in prog.xr.iter()
        {
            let before: Vec<Entity> = app.world_mut().iter_entities().map(|e| e.id()).collect();
            match idx { 0 => { app.add_entity_reactor(Xr::<0>(*sid, prog.clone())); } _ => { app.add_entity_reactor(Xr::<1>(*sid, prog.clone())); } }
            let new = new_entities(app.world_mut(), &before);
            assert_eq!(new.len(), 1);
            bind(*sid, new[0]);
        }
        // finish startup (Startup schedules, first clear_trackers) before the program begins
        app.update();
        LOG.lock().unwrap_or_else(|e| e.into_inner()).clear();

        for (i, op) in prog.top.iter().enumerate()
        {
            let r = catch_unwind(AssertUnwindSafe(|| {
                match op
                {
                    TopOp::Flush(acts) =>
                    {
                        let world = app.world_mut();
                        let mut st: SystemState<Ctx> = SystemState::new(world);
                        {
                            let mut ctx = st.get_mut(world);
                            for (idx, a) in acts.iter().enumerate() { do_action(&mut ctx, &format!("t{i}.{idx}"), a); }
                        }
                        st.apply(world);
                    }
                    TopOp::Direct(acts) =>
                    {
                        let world = app.world_mut();
                        for (idx, a) in acts.iter().enumerate() { step_action(world, &format!("t{i}.{idx}"), a); }
                    }
                    TopOp::Frame(batches) =>
                    {
                        assert!(batches.len() <= 4);
                        *app.world_mut().resource_mut::<CurrentFrame>() = CurrentFrame{ op: i, batches: batches.clone() };
                        app.update();
                        app.world_mut().resource_mut::<CurrentFrame>().batches.clear();
                    }
                }
            }));
            if r.is_err() { log("panic".to_string()); return; }
            let line = print_snapshot(i, &mut app, &prog);
            log(line);
        }
        // dropping the app drops every system and payload still alive; not part of the compared log
        let keep = LOG.lock().unwrap_or_else(|e| e.into_inner()).len();
        drop(app);
        LOG.lock().unwrap_or_else(|e| e.into_inner()).truncate(keep);
    }));
    if result.is_err() { log("panic".to_string()); }
    verif::set_runner_sink(None);
    std::mem::take(&mut *LOG.lock().unwrap_or_else(|e| e.into_inner()))
}

fn main()
{
    std::panic::set_hook(Box::new(|info| {
        if std::env::var("HARNESS_VERBOSE_PANIC").is_ok() { eprintln!("{info}"); }
    }));
    let args: Vec<String> = std::env::args().skip(1).collect();
    if args.first().map(|s| s.as_str()) == Some("c10") { c10::main(&args[1..]); return; }
    if args.first().map(|s| s.as_str()) == Some("c17") { c17::main(&args[1..]); return; }
    if args.len() == 1 && args[0] == "-"
    {
        let text = std::io::read_to_string(std::io::stdin()).unwrap();
        let prog = Arc::new(parse_program(&text).expect("parse"));
        for l in run_program(prog) { println!("{l}"); }
        return;
    }
    for f in args.iter()
    {
        let text = std::fs::read_to_string(f).unwrap();
        let out = match parse_program(&text)
        {
            Ok(p) => run_program(Arc::new(p)).join("\n") + "\n",
            Err(e) => format!("driver-error {e}\n"),
        };
        std::fs::write(format!("{f}.impl.log"), out).unwrap();
    }
}
