//! C17 driver (syscall family): filled in below.
pub fn main(_args: &[String]) { eprintln!("c17 driver not built yet"); std::process::exit(2); }
