//! C17 driver: call trees over syscall / named_syscall / named_syscall_direct / spawned_syscall, executed on a real World.
//! Line format: `id=kind:fields:children ... top=ids` (see tools/gen_c17.py). Prints body and return events.
use bevy::prelude::*;
use bevy_cobweb::prelude::*;
use std::collections::HashMap;
use std::sync::{Arc, Mutex};

static LOG: Mutex<Vec<String>> = Mutex::new(Vec::new());
static SIDS: Mutex<Option<HashMap<u32, SysId>>> = Mutex::new(None);
fn log(s: String) { LOG.lock().unwrap_or_else(|e| e.into_inner()).push(s); }

#[derive(Clone, Debug)]
enum Node
{
    Sc{ id: u32, t: u32, v: u32, kids: Vec<u32> },
    Nm{ id: u32, name: u32, t: u32, v: u32, kids: Vec<u32> },
    Nd{ id: u32, name: u32, t: u32, v: u32, kids: Vec<u32> },
    Sy{ id: u32, sid: u32, v: u32, kids: Vec<u32> },
    Sp{ sid: u32, t: u32 },
    Ds{ sid: u32 },
}

#[derive(Clone)]
pub struct Arg { id: u32, key: String, v: u32, kids: Vec<u32>, nodes: Arc<HashMap<u32, Node>> }

fn sysfn<const T: usize>(In(arg): In<Arg>, mut local: Local<u32>, mut c: Commands) -> u32
{
    *local += 1;
    log(format!("body {} {} t{} v{} l{}", arg.id, arg.key, T, arg.v, *local));
    let kids = arg.kids.clone();
    let nodes = arg.nodes.clone();
    c.queue(move |w: &mut World| { for k in kids.iter() { exec(w, *k, &nodes); } });
    arg.v * 100 + *local
}

/// type tag 2 is an exclusive system: its Local lives in exclusive-system param state, which Bevy re-creates on every
/// `initialize`; the nested calls run at the end of the body (an exclusive system applies its effects itself)
fn sysfn_x(In(arg): In<Arg>, world: &mut World, mut local: Local<u32>) -> u32
{
    *local += 1;
    log(format!("body {} {} t{} v{} l{}", arg.id, arg.key, 2, arg.v, *local));
    for k in arg.kids.iter() { exec(world, *k, &arg.nodes); }
    arg.v * 100 + *local
}

/// the key named_syscall derives for (name, system type): the system's type is only nameable through inference
fn sysname_of<S: 'static>(_system: &S, name: u32) -> SysName { SysName::new::<S>(name) }

fn exec(world: &mut World, id: u32, nodes: &Arc<HashMap<u32, Node>>)
{
    match nodes[&id].clone()
    {
        Node::Sc{ id, t, v, kids } =>
        {
            let arg = Arg{ id, key: format!("sys{t}"), v, kids, nodes: nodes.clone() };
            let out = match t { 0 => syscall(world, arg, sysfn::<0>), 1 => syscall(world, arg, sysfn::<1>), _ => syscall(world, arg, sysfn_x) };
            log(format!("ret {id} {out}"));
        }
        Node::Nm{ id, name, t, v, kids } =>
        {
            let arg = Arg{ id, key: format!("named{name}.{t}"), v, kids, nodes: nodes.clone() };
            let out = match t { 0 => named_syscall(world, name, arg, sysfn::<0>), 1 => named_syscall(world, name, arg, sysfn::<1>), _ => named_syscall(world, name, arg, sysfn_x) };
            log(format!("ret {id} {out}"));
        }
        Node::Nd{ id, name, t, v, kids } =>
        {
            let arg = Arg{ id, key: format!("named{name}.{t}"), v, kids, nodes: nodes.clone() };
            let sys_name = match t { 0 => sysname_of(&sysfn::<0>, name), 1 => sysname_of(&sysfn::<1>, name), _ => sysname_of(&sysfn_x, name) };
            match named_syscall_direct::<In<Arg>, u32>(world, sys_name, arg)
            {
                Ok(out) => log(format!("ret {id} {out}")),
                Err(_) => log(format!("ret {id} err")),
            }
        }
        Node::Sy{ id, sid, v, kids } =>
        {
            let arg = Arg{ id, key: format!("spawned{sid}"), v, kids, nodes: nodes.clone() };
            let sysid = SIDS.lock().unwrap().as_ref().unwrap().get(&sid).copied().unwrap_or(SysId::new(Entity::from_raw(0x7F00_0000 + sid)));
            match spawned_syscall::<In<Arg>, u32>(world, sysid, arg)
            {
                Ok(out) => log(format!("ret {id} {out}")),
                Err(_) => log(format!("ret {id} err")),
            }
        }
        Node::Sp{ sid, t } =>
        {
            let known = SIDS.lock().unwrap().as_ref().unwrap().contains_key(&sid);
            if !known
            {
                let sysid = match t { 0 => spawn_system(world, sysfn::<0>), 1 => spawn_system(world, sysfn::<1>), _ => spawn_system(world, sysfn_x) };
                SIDS.lock().unwrap().as_mut().unwrap().insert(sid, sysid);
            }
        }
        Node::Ds{ sid } =>
        {
            let sysid = SIDS.lock().unwrap().as_ref().unwrap().get(&sid).copied();
            if let Some(s) = sysid { if world.get_entity(s.entity()).is_ok() { world.despawn(s.entity()); } }
        }
    }
}

fn parse_line(line: &str) -> (HashMap<u32, Node>, Vec<u32>)
{
    let mut nodes = HashMap::new();
    let mut top = Vec::new();
    let kids = |s: &str| -> Vec<u32> { if s.is_empty() { vec![] } else { s.split(',').map(|x| x.parse().unwrap()).collect() } };
    let num = |s: &str| s.parse::<u32>().unwrap();
    for w in line.split_whitespace()
    {
        let (k, v) = w.split_once('=').unwrap();
        if k == "top" { top = kids(v); continue; }
        let id = num(k);
        let p: Vec<&str> = v.split(':').collect();
        let node = match p.as_slice()
        {
            ["sc", t, v, ch] => Node::Sc{ id, t: num(t), v: num(v), kids: kids(ch) },
            ["nm", name, t, v, ch] => Node::Nm{ id, name: num(name), t: num(t), v: num(v), kids: kids(ch) },
            ["nd", name, t, v, ch] => Node::Nd{ id, name: num(name), t: num(t), v: num(v), kids: kids(ch) },
            ["sy", sid, v, ch] => Node::Sy{ id, sid: num(sid), v: num(v), kids: kids(ch) },
            ["sp", sid, t] => Node::Sp{ sid: num(sid), t: num(t) },
            ["ds", sid] => Node::Ds{ sid: num(sid) },
            _ => panic!("bad node {w}"),
        };
        nodes.insert(id, node);
    }
    (nodes, top)
}

pub fn run_line(line: &str) -> String
{
    LOG.lock().unwrap_or_else(|e| e.into_inner()).clear();
    *SIDS.lock().unwrap() = Some(HashMap::new());
    let (nodes, top) = parse_line(line);
    let nodes = Arc::new(nodes);
    let mut world = World::new();
    for id in top { exec(&mut world, id, &nodes); }
    std::mem::take(&mut *LOG.lock().unwrap_or_else(|e| e.into_inner())).join(" | ")
}

pub fn main(args: &[String])
{
    for f in args
    {
        let text = std::fs::read_to_string(f).unwrap();
        let lines: Vec<String> = text.lines().map(|l| {
            std::panic::catch_unwind(|| run_line(l)).unwrap_or_else(|_| "panic".to_string())
        }).collect();
        std::fs::write(format!("{f}.impl.log"), lines.join("\n") + "\n").unwrap();
    }
}
