//! Program text parser (format: docs/INTERFACE.md).
use std::collections::{BTreeMap, HashMap};

#[derive(Clone, Copy, Debug, PartialEq, Eq)] pub enum Kind { Plain, Excl }
#[derive(Clone, Copy, Debug, PartialEq, Eq)] pub enum Mode { P, C, R }

#[derive(Clone, Debug)]
pub struct SysDecl { pub id: u32, pub kind: Kind, pub err: bool, pub take: bool, pub x: Option<u32> }

#[derive(Clone, Copy, Debug)]
pub enum Trig
{
    Bc(u32), Ee(u32, u32), Aee(u32), Res(u32), Ins(u32), Mut(u32), Rem(u32),
    EIns(u32, u32), EMut(u32, u32), ERem(u32, u32), Dsp(u32),
}

#[derive(Clone, Debug)]
pub enum Action
{
    Run(u32), Sev(u32, u32, u32), Bc(u32, u32), Ee(u32, u32, u32),
    Ins(u32, u32, u32), Mut(u32, u32, u32), Sin(u32, u32, u32), Gnr(u32, u32, u32), Rd(u32, u32), Rm(u32, u32),
    Dsp(u32), Dspr(u32), Tres(u32), Sres(u32, u32), Nres(u32, u32), Spe(u32), Sps(u32),
    Reg(u32, Mode, u32, Vec<Trig>), On(u32, Vec<Trig>), Onp(u32, Vec<Trig>), Onr(u32, u32, Vec<Trig>),
    Once(u32, u32, Vec<Trig>), Rev(u32), Wra(u32, Vec<Trig>), Wrr(u32, Vec<Trig>), Wrun(u32),
    Xra(u32, u32, u32), Xrr(u32, Vec<Trig>), Gc, Poll,
}

#[derive(Clone, Debug)]
pub enum TopOp { Flush(Vec<Action>), Direct(Vec<Action>), Frame(Vec<Vec<Action>>) }

#[derive(Clone, Debug, Default)]
pub struct Prog
{
    pub sys: HashMap<u32, SysDecl>,
    pub sys_order: Vec<u32>,
    pub scripts: HashMap<(u32, u32), Vec<Action>>,
    pub wr: BTreeMap<u32, u32>,
    pub xr: BTreeMap<u32, (u32, Vec<u32>)>,
    pub ents: Vec<u32>,
    pub top: Vec<TopOp>,
}

impl Prog
{
    pub fn all_ids(&self) -> Vec<u32>
    {
        let mut v = self.ents.clone();
        v.extend(self.sys_order.iter().copied());
        v
    }
}

fn num(s: &str) -> Result<u32, String> { s.parse::<u32>().map_err(|_| format!("bad number {s}")) }

fn parse_trigger(s: &str) -> Result<Trig, String>
{
    let p: Vec<&str> = s.split('.').collect();
    Ok(match p.as_slice()
    {
        ["bc", ty] => Trig::Bc(num(ty)?), ["ee", ty, e] => Trig::Ee(num(ty)?, num(e)?), ["aee", ty] => Trig::Aee(num(ty)?),
        ["res", r] => Trig::Res(num(r)?), ["ins", c] => Trig::Ins(num(c)?), ["mut", c] => Trig::Mut(num(c)?),
        ["rem", c] => Trig::Rem(num(c)?), ["eins", c, e] => Trig::EIns(num(c)?, num(e)?),
        ["emut", c, e] => Trig::EMut(num(c)?, num(e)?), ["erem", c, e] => Trig::ERem(num(c)?, num(e)?),
        ["dsp", e] => Trig::Dsp(num(e)?),
        _ => return Err(format!("bad trigger {s}")),
    })
}

fn parse_bundle(s: &str) -> Result<Vec<Trig>, String>
{
    if !(s.starts_with('[') && s.ends_with(']')) { return Err(format!("bad bundle {s}")); }
    let inner = &s[1..s.len() - 1];
    if inner.is_empty() { return Ok(vec![]); }
    inner.split(',').map(parse_trigger).collect()
}

fn parse_action(s: &str) -> Result<Action, String>
{
    let p: Vec<&str> = s.split(':').collect();
    Ok(match p.as_slice()
    {
        ["run", t] => Action::Run(num(t)?),
        ["sev", t, ty, p] => Action::Sev(num(t)?, num(ty)?, num(p)?),
        ["bc", ty, p] => Action::Bc(num(ty)?, num(p)?),
        ["ee", ty, e, p] => Action::Ee(num(ty)?, num(e)?, num(p)?),
        ["ins", c, e, v] => Action::Ins(num(c)?, num(e)?, num(v)?),
        ["mut", c, e, v] => Action::Mut(num(c)?, num(e)?, num(v)?),
        ["sin", c, e, v] => Action::Sin(num(c)?, num(e)?, num(v)?),
        ["gnr", c, e, v] => Action::Gnr(num(c)?, num(e)?, num(v)?),
        ["rd", c, e] => Action::Rd(num(c)?, num(e)?),
        ["rm", c, e] => Action::Rm(num(c)?, num(e)?),
        ["dsp", e] => Action::Dsp(num(e)?),
        ["dspr", e] => Action::Dspr(num(e)?),
        ["tres", r] => Action::Tres(num(r)?),
        ["sres", r, v] => Action::Sres(num(r)?, num(v)?),
        ["nres", r, v] => Action::Nres(num(r)?, num(v)?),
        ["spe", e] => Action::Spe(num(e)?),
        ["sps", t] => Action::Sps(num(t)?),
        ["reg", tok, m, t, b] => Action::Reg(num(tok)?, match *m { "p" => Mode::P, "c" => Mode::C, "r" => Mode::R, _ => return Err(format!("bad mode {m}")) }, num(t)?, parse_bundle(b)?),
        ["on", t, b] => Action::On(num(t)?, parse_bundle(b)?),
        ["onp", t, b] => Action::Onp(num(t)?, parse_bundle(b)?),
        ["onr", tok, t, b] => Action::Onr(num(tok)?, num(t)?, parse_bundle(b)?),
        ["once", tok, t, b] => Action::Once(num(tok)?, num(t)?, parse_bundle(b)?),
        ["rev", tok] => Action::Rev(num(tok)?),
        ["wra", w, b] => Action::Wra(num(w)?, parse_bundle(b)?),
        ["wrr", w, b] => Action::Wrr(num(w)?, parse_bundle(b)?),
        ["wrun", w] => Action::Wrun(num(w)?),
        ["xra", x, e, v] => Action::Xra(num(x)?, num(e)?, num(v)?),
        ["xrr", x, b] => Action::Xrr(num(x)?, parse_bundle(b)?),
        ["gc"] => Action::Gc,
        ["poll"] => Action::Poll,
        _ => return Err(format!("bad action {s}")),
    })
}

fn parse_actions(ws: &[&str]) -> Result<Vec<Action>, String> { ws.iter().map(|w| parse_action(w)).collect() }

pub fn parse_program(text: &str) -> Result<Prog, String>
{
    let mut p = Prog::default();
    for line in text.lines()
    {
        let line = line.split('#').next().unwrap();
        let ws: Vec<&str> = line.split_whitespace().collect();
        match ws.as_slice()
        {
            [] => (),
            ["prog", ..] => (),
            ["ents", es @ ..] => { for e in es { p.ents.push(num(e)?); } }
            ["sys", id, kind, res, take, rest @ ..] =>
            {
                let x = match rest { [] => None, [s] if s.starts_with('x') => Some(num(&s[1..])?), _ => return Err(format!("bad sys line {line}")) };
                let id = num(id)?;
                let kind = match *kind { "plain" => Kind::Plain, "excl" => Kind::Excl, _ => return Err(format!("bad kind {kind}")) };
                p.sys.insert(id, SysDecl{ id, kind, err: *res == "err", take: *take == "take", x });
                p.sys_order.push(id);
            }
            ["wr", i, s] => { p.wr.insert(num(i)?, num(s)?); }
            ["xr", i, s, shape] => { p.xr.insert(num(i)?, (num(s)?, shape.split(',').map(num).collect::<Result<Vec<_>, _>>()?)); }
            ["script", s, r, acts @ ..] => { p.scripts.insert((num(s)?, num(r)?), parse_actions(acts)?); }
            ["top", "flush", acts @ ..] => p.top.push(TopOp::Flush(parse_actions(acts)?)),
            ["top", "direct", acts @ ..] => p.top.push(TopOp::Direct(parse_actions(acts)?)),
            ["top", "frame", ws @ ..] =>
            {
                let mut batches = Vec::new();
                if !ws.is_empty()
                {
                    for b in ws.split(|w| *w == "|") { batches.push(parse_actions(b)?); }
                }
                p.top.push(TopOp::Frame(batches));
            }
            _ => return Err(format!("bad line: {line}")),
        }
    }
    Ok(p)
}
