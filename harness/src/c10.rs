//! C10 driver: one op sequence per line (`sp:e pr:g:e cl:g db:g de:g gc ds:e dr:e par:e:p`), executed on a real World
//! with the crate's AutoDespawner; every real drop of a signal happens on a freshly spawned worker thread.
//! Prints, per line, the live entities (static ids, sorted) after every operation.
use bevy::prelude::*;
use bevy_cobweb::prelude::*;
use std::collections::HashMap;

fn alive_list(world: &World, map: &HashMap<u32, Entity>) -> String
{
    let mut v: Vec<u32> = map.iter().filter(|(_, e)| world.get_entity(**e).is_ok()).map(|(k, _)| *k).collect();
    v.sort();
    v.iter().map(|x| x.to_string()).collect::<Vec<_>>().join(",")
}

/// true if `x` is `e` or hangs below `e` through parents that are alive
fn reaches(world: &World, mut x: Entity, e: Entity) -> bool
{
    let mut fuel = 10_000;
    loop
    {
        if x == e { return true; }
        fuel -= 1;
        if fuel == 0 { return false; }
        let Some(p) = world.get_entity(x).ok().and_then(|r| r.get::<Parent>().map(|p| p.get())) else { return false; };
        if world.get_entity(p).is_err() { return false; }
        x = p;
    }
}

pub fn run_line(line: &str) -> String
{
    let mut app = App::new();
    app.setup_auto_despawn();
    let mut map: HashMap<u32, Entity> = HashMap::new();
    let mut live: HashMap<u32, Vec<AutoDespawnSignal>> = HashMap::new();
    let mut dropping: HashMap<u32, Vec<AutoDespawnSignal>> = HashMap::new();
    let mut used: std::collections::HashSet<u32> = Default::default();
    let mut out: Vec<String> = Vec::new();
    let num = |s: &str| s.parse::<u32>().unwrap();
    for op in line.split_whitespace()
    {
        let p: Vec<&str> = op.split(':').collect();
        let world = app.world_mut();
        match p.as_slice()
        {
            ["sp", e] => { let e = num(e); if !map.contains_key(&e) { let ent = world.spawn_empty().id(); map.insert(e, ent); } }
            ["pr", g, e] =>
            {
                let (g, e) = (num(g), num(e));
                if !used.contains(&g)
                {
                    used.insert(g);
                    let ent = map.get(&e).copied().unwrap_or(Entity::from_raw(0x7F00_0000 + e));
                    let sig = world.resource::<AutoDespawner>().prepare(ent);
                    live.entry(g).or_default().push(sig);
                }
            }
            ["cl", g] => { let g = num(g); if let Some(v) = live.get_mut(&g) { if let Some(s) = v.first() { let c = s.clone(); v.push(c); } } }
            ["db", g] =>
            {
                let g = num(g);
                if let Some(v) = live.get_mut(&g)
                {
                    if v.len() > 1 { let s = v.pop().unwrap(); std::thread::spawn(move || drop(s)).join().unwrap(); }
                    else if v.len() == 1 { let s = v.pop().unwrap(); dropping.entry(g).or_default().push(s); }
                }
            }
            ["de", g] =>
            {
                let g = num(g);
                if let Some(v) = dropping.get_mut(&g) { for s in v.drain(..) { std::thread::spawn(move || drop(s)).join().unwrap(); } }
            }
            ["gc"] => garbage_collect_entities(world),
            ["ds", e] => { if let Some(ent) = map.get(&num(e)) { if world.get_entity(*ent).is_ok() { world.despawn(*ent); } } }
            ["dr", e] => { if let Some(ent) = map.get(&num(e)) { if let Ok(em) = world.get_entity_mut(*ent) { em.despawn_recursive(); } } }
            ["par", e, p] =>
            {
                if let (Some(e), Some(p)) = (map.get(&num(e)).copied(), map.get(&num(p)).copied())
                {
                    if world.get_entity(e).is_ok() && world.get_entity(p).is_ok() && !reaches(world, p, e)
                    {
                        world.entity_mut(e).set_parent(p);
                    }
                }
            }
            _ => panic!("bad op {op}"),
        }
        out.push(alive_list(app.world(), &map));
    }
    out.join(" | ")
}

pub fn main(args: &[String])
{
    for f in args
    {
        let text = std::fs::read_to_string(f).unwrap();
        let lines: Vec<String> = text.lines().map(|l| {
            std::panic::catch_unwind(|| run_line(l)).unwrap_or_else(|_| "panic".to_string())
        }).collect();
        std::fs::write(format!("{f}.impl.log"), lines.join("\n") + "\n").unwrap();
    }
}
