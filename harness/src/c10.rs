//! C10 driver (auto-despawn reference counting): filled in below.
pub fn main(_args: &[String]) { eprintln!("c10 driver not built yet"); std::process::exit(2); }
