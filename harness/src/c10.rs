//! C10 driver: one op sequence per line (`sp:e pr:g:e cl:g db:g de:g gc ds:e dr:e par:e:p`), executed on a real World
//! with the crate's AutoDespawner; every real drop of a signal happens on a freshly spawned worker thread.
//! Prints, per line, the live entities (static ids, sorted) after every operation.
use bevy::prelude::*;
use bevy_cobweb::prelude::*;
use std::collections::HashMap;

fn alive_list(world: &World, map: &HashMap<u32, Entity>) -> String
{
    let mut v: Vec<u32> = map.iter().filter(|(_, e)| world.get_entity(**e).is_ok()).map(|(k, _)| *k).collect();
    v.sort();
    v.iter().map(|x| x.to_string()).collect::<Vec<_>>().join(",")
}

/// true if `x` is `e` or hangs below `e` through parents that are alive
fn reaches(world: &World, mut x: Entity, e: Entity) -> bool
{
    let mut fuel = 10_000;
    loop
    {
        if x == e { return true; }
        fuel -= 1;
        if fuel == 0 { return false; }
        let Some(p) = world.get_entity(x).ok().and_then(|r| r.get::<Parent>().map(|p| p.get())) else { return false; };
        if world.get_entity(p).is_err() { return false; }
        x = p;
    }
}

pub fn run_line(line: &str) -> String
{
    let mut app = App::new();
    app.setup_auto_despawn();
    let mut map: HashMap<u32, Entity> = HashMap::new();
    let mut live: HashMap<u32, Vec<AutoDespawnSignal>> = HashMap::new();
    let mut dropping: HashMap<u32, Vec<AutoDespawnSignal>> = HashMap::new();
    let mut used: std::collections::HashSet<u32> = Default::default();
    let mut out: Vec<String> = Vec::new();
    let num = |s: &str| s.parse::<u32>().unwrap();
    for op in line.split_whitespace()
    {
        let p: Vec<&str> = op.split(':').collect();
        let world = app.world_mut();
        match p.as_slice()
        {
            ["sp", e] => { let e = num(e); if !map.contains_key(&e) { let ent = world.spawn_empty().id(); map.insert(e, ent); } }
            ["pr", g, e] =>
            {
                let (g, e) = (num(g), num(e));
                if !used.contains(&g)
                {
                    used.insert(g);
                    let ent = map.get(&e).copied().unwrap_or(Entity::from_raw(0x7F00_0000 + e));
                    let sig = world.resource::<AutoDespawner>().prepare(ent);
                    live.entry(g).or_default().push(sig);
                }
            }
            ["cl", g] => { let g = num(g); if let Some(v) = live.get_mut(&g) { if let Some(s) = v.first() { let c = s.clone(); v.push(c); } } }
            ["db", g] =>
            {
                let g = num(g);
                if let Some(v) = live.get_mut(&g)
                {
                    if v.len() > 1 { let s = v.pop().unwrap(); std::thread::spawn(move || drop(s)).join().unwrap(); }
                    else if v.len() == 1 { let s = v.pop().unwrap(); dropping.entry(g).or_default().push(s); }
                }
            }
            ["de", g] =>
            {
                let g = num(g);
                if let Some(v) = dropping.get_mut(&g) { for s in v.drain(..) { std::thread::spawn(move || drop(s)).join().unwrap(); } }
            }
            ["gc"] => garbage_collect_entities(world),
            ["ds", e] => { if let Some(ent) = map.get(&num(e)) { if world.get_entity(*ent).is_ok() { world.despawn(*ent); } } }
            ["dr", e] => { if let Some(ent) = map.get(&num(e)) { if let Ok(em) = world.get_entity_mut(*ent) { em.despawn_recursive(); } } }
            ["par", e, p] =>
            {
                if let (Some(e), Some(p)) = (map.get(&num(e)).copied(), map.get(&num(p)).copied())
                {
                    if world.get_entity(e).is_ok() && world.get_entity(p).is_ok() && !reaches(world, p, e)
                    {
                        world.entity_mut(e).set_parent(p);
                    }
                }
            }
            _ => panic!("bad op {op}"),
        }
        out.push(alive_list(app.world(), &map));
    }
    out.join(" | ")
}

/// Free-running stress (thorough tier): worker threads drop their clones at unsynchronised moments while the main
/// thread keeps collecting.  Model-free oracle = the statement of C10 at the end of each round: an entity whose
/// signal still has a live clone has survived every collection; an entity all of whose clones were dropped is dead
/// after one more collection; nothing else was touched.
pub fn stress(rounds: u32, seed: u64) -> Result<String, String>
{
    let mut rng = seed.wrapping_mul(6364136223846793005).wrapping_add(1442695040888963407);
    let mut next = move |m: u64| { rng = rng.wrapping_mul(6364136223846793005).wrapping_add(1442695040888963407); (rng >> 33) % m };
    let mut collected = 0u64; let mut kept = 0u64; let mut drops = 0u64;
    for round in 0..rounds
    {
        let mut app = App::new();
        app.setup_auto_despawn();
        let n = 4 + next(12) as usize;
        let bystander = app.world_mut().spawn_empty().id();
        let mut ents = Vec::new();
        let mut held: Vec<Option<AutoDespawnSignal>> = Vec::new();
        let mut per_thread: Vec<Vec<(AutoDespawnSignal, u64)>> = (0..4).map(|_| Vec::new()).collect();
        for _ in 0..n
        {
            let e = app.world_mut().spawn_empty().id();
            // half of them get a child that must go with the parent
            if next(2) == 0
            {
                let c = app.world_mut().spawn_empty().id(); app.world_mut().entity_mut(c).set_parent(e);
                // the child may have a signal of its own: when the parent goes first, the child's entry on the channel is stale
                if next(2) == 0 { let cs = app.world().resource::<AutoDespawner>().prepare(c); per_thread[next(4) as usize].push((cs, next(2000))); drops += 1; }
            }
            let sig = app.world().resource::<AutoDespawner>().prepare(e);
            let clones = 1 + next(6);
            for _ in 0..clones { let t = next(4) as usize; per_thread[t].push((sig.clone(), next(2000))); drops += 1; }
            if next(3) == 0 { held.push(Some(sig)); } else { per_thread[next(4) as usize].push((sig, next(2000))); held.push(None); drops += 1; }
            ents.push(e);
        }
        let handles: Vec<_> = per_thread.into_iter().map(|v| std::thread::spawn(move || {
            for (s, spin) in v { for _ in 0..spin { std::hint::spin_loop(); } drop(s); }
        })).collect();
        // the main thread collects while the workers drop
        let mut spins = 0;
        while handles.iter().any(|h| !h.is_finished()) && spins < 1_000_000
        {
            garbage_collect_entities(app.world_mut());
            for (i, e) in ents.iter().enumerate()
            {
                if held[i].is_some() && app.world().get_entity(*e).is_err()
                { return Err(format!("round {round}: entity {i} was collected while a clone of its signal was alive")); }
            }
            spins += 1;
        }
        for h in handles { h.join().map_err(|_| "worker panicked".to_string())?; }
        garbage_collect_entities(app.world_mut());
        for (i, e) in ents.iter().enumerate()
        {
            let alive = app.world().get_entity(*e).is_ok();
            if held[i].is_some() && !alive { return Err(format!("round {round}: entity {i} collected although a clone is still held")); }
            if held[i].is_none() && alive { return Err(format!("round {round}: entity {i} survived the collection after its last clone was dropped")); }
            if held[i].is_none() { collected += 1; } else { kept += 1; }
        }
        if app.world().get_entity(bystander).is_err() { return Err(format!("round {round}: a bystander entity was despawned")); }
        for h in held.iter_mut() { h.take(); }
        garbage_collect_entities(app.world_mut());
        garbage_collect_entities(app.world_mut());
        if ents.iter().any(|e| app.world().get_entity(*e).is_ok()) { return Err(format!("round {round}: an entity survived after every clone was dropped")); }
        if app.world().entities().len() != 1 { return Err(format!("round {round}: {} entities left, expected only the bystander (children must go with their parents)", app.world().entities().len())); }
    }
    Ok(format!("stress ok rounds={rounds} collected={collected} kept_until_released={kept} concurrent_drops={drops}"))
}

pub fn main(args: &[String])
{
    if args.first().map(|s| s.as_str()) == Some("stress")
    {
        let rounds = args.get(1).and_then(|s| s.parse().ok()).unwrap_or(200);
        let seed = args.get(2).and_then(|s| s.parse().ok()).unwrap_or(1);
        match std::panic::catch_unwind(|| stress(rounds, seed))
        {
            Ok(Ok(s)) => println!("{s}"),
            Ok(Err(e)) => println!("stress FAIL {e}"),
            Err(_) => println!("stress FAIL panic"),
        }
        return;
    }
    for f in args
    {
        let text = std::fs::read_to_string(f).unwrap();
        let lines: Vec<String> = text.lines().map(|l| {
            std::panic::catch_unwind(|| run_line(l)).unwrap_or_else(|_| "panic".to_string())
        }).collect();
        std::fs::write(format!("{f}.impl.log"), lines.join("\n") + "\n").unwrap();
    }
}
