(* driver.ml — parses program text (see docs/INTERFACE.md), runs the extracted model, prints the canonical log.
   Usage: model_run <file.prog>...   (each program's log is written to <file>.model.log)
          model_run -                (one program on stdin, log on stdout) *)
open Model

let rec pos_of_int (i : int) : positive =
  if i = 1 then XH else if i land 1 = 0 then XO (pos_of_int (i lsr 1)) else XI (pos_of_int (i lsr 1))
let n_of_int (i : int) : n = if i = 0 then N0 else Npos (pos_of_int i)
let rec int_of_pos = function XH -> 1 | XO p -> 2 * int_of_pos p | XI p -> 2 * int_of_pos p + 1
let int_of_n = function N0 -> 0 | Npos p -> int_of_pos p
let rec nat_of_int i = if i = 0 then O else S (nat_of_int (i - 1))

let ni s = n_of_int (int_of_string s)
let fail fmt = Printf.ksprintf failwith fmt

(* ---------- parsing ---------- *)
let parse_trigger (s : string) : trigger =
  match String.split_on_char '.' s with
  | ["bc"; ty] -> TBroadcast (ni ty)
  | ["ee"; ty; e] -> TEntityEvent (ni ty, ni e)
  | ["aee"; ty] -> TAnyEntityEvent (ni ty)
  | ["res"; r] -> TResource (ni r)
  | ["ins"; c] -> TIns (ni c)
  | ["mut"; c] -> TMut (ni c)
  | ["rem"; c] -> TRem (ni c)
  | ["eins"; c; e] -> TEIns (ni c, ni e)
  | ["emut"; c; e] -> TEMut (ni c, ni e)
  | ["erem"; c; e] -> TERem (ni c, ni e)
  | ["dsp"; e] -> TDespawn (ni e)
  | _ -> fail "bad trigger %s" s

let parse_bundle (s : string) : trigger list =
  let n = String.length s in
  if n < 2 || s.[0] <> '[' || s.[n-1] <> ']' then fail "bad bundle %s" s;
  let inner = String.sub s 1 (n - 2) in
  if inner = "" then [] else List.map parse_trigger (String.split_on_char ',' inner)

let parse_mode = function "p" -> Persistent | "c" -> Cleanup | "r" -> Revokable | m -> fail "bad mode %s" m

let parse_action (s : string) : action =
  match String.split_on_char ':' s with
  | ["run"; t] -> ARun (ni t)
  | ["sev"; t; ty; p] -> ASysEvent (ni t, ni ty, ni p)
  | ["bc"; ty; p] -> ABroadcast (ni ty, ni p)
  | ["ee"; ty; e; p] -> AEntityEvent (ni ty, ni e, ni p)
  | ["ins"; c; e; v] -> AInsert (ni c, ni e, ni v)
  | ["mut"; c; e; v] -> AMutate (ni c, ni e, ni v)
  | ["sin"; c; e; v] -> ASetIfNeq (ni c, ni e, ni v)
  | ["gnr"; c; e; v] -> AGetNoReact (ni c, ni e, ni v)
  | ["rd"; c; e] -> ARead (ni c, ni e)
  | ["rm"; c; e] -> ARemove (ni c, ni e)
  | ["dsp"; e] -> ADespawn (ni e)
  | ["dspr"; e] -> ADespawnRec (ni e)
  | ["tres"; r] -> ATrigRes (ni r)
  | ["sres"; r; v] -> ASetResIfNeq (ni r, ni v)
  | ["nres"; r; v] -> AResNoReact (ni r, ni v)
  | ["spe"; e] -> ASpawnEntity (ni e)
  | ["sps"; t] -> ASpawnSys (ni t)
  | ["reg"; tok; m; t; b] -> ARegister (ni tok, parse_mode m, ni t, parse_bundle b)
  | ["on"; t; b] -> AOn (ni t, parse_bundle b)
  | ["onp"; t; b] -> AOnPersistent (ni t, parse_bundle b)
  | ["onr"; tok; t; b] -> AOnRevokable (ni tok, ni t, parse_bundle b)
  | ["once"; tok; t; b] -> AOnce (ni tok, ni t, parse_bundle b)
  | ["rev"; tok] -> ARevoke (ni tok)
  | ["wra"; w; b] -> AWrAdd (ni w, parse_bundle b)
  | ["wrr"; w; b] -> AWrRemove (ni w, parse_bundle b)
  | ["wrun"; w] -> AWrRun (ni w)
  | ["xra"; x; e; v] -> AXrAdd (ni x, ni e, ni v)
  | ["xrr"; x; b] -> AXrRemove (ni x, parse_bundle b)
  | ["gc"] -> AGC
  | ["poll"] -> APoll
  | _ -> fail "bad action %s" s

let words (l : string) = List.filter (fun w -> w <> "") (String.split_on_char ' ' l)

let split_batches (ws : string list) : string list list =
  let rec go cur acc = function
    | [] -> List.rev (List.rev cur :: acc)
    | "|" :: r -> go [] (List.rev cur :: acc) r
    | w :: r -> go (w :: cur) acc r in
  go [] [] ws

let parse_program (lines : string list) : program =
  let sys = ref [] and scripts = ref [] and wr = ref [] and xr = ref [] and ents = ref [] and top = ref [] in
  List.iter (fun l ->
    let l = match String.index_opt l '#' with Some i -> String.sub l 0 i | None -> l in
    match words l with
    | [] -> ()
    | "prog" :: _ -> ()
    | "ents" :: es -> ents := !ents @ List.map ni es
    | "sys" :: id :: kind :: res :: take :: rest ->
        let x = match rest with [] -> None | [s] when String.length s > 1 && s.[0] = 'x' -> Some (ni (String.sub s 1 (String.length s - 1))) | _ -> fail "bad sys line %s" l in
        sys := !sys @ [{ sd_id = ni id; sd_kind = (match kind with "plain" -> Plain | "excl" -> Excl | k -> fail "bad kind %s" k);
                         sd_err = (res = "err"); sd_take = (take = "take"); sd_x = x }]
    | ["wr"; i; s] -> wr := !wr @ [(ni i, ni s)]
    | ["xr"; i; s; shape] -> xr := !xr @ [(ni i, (ni s, List.map ni (String.split_on_char ',' shape)))]
    | "script" :: s :: r :: acts -> scripts := !scripts @ [((ni s, ni r), List.map parse_action acts)]
    | "top" :: "flush" :: acts -> top := !top @ [TFlush (List.map parse_action acts)]
    | "top" :: "direct" :: acts -> top := !top @ [TDirect (List.map parse_action acts)]
    | "top" :: "frame" :: ws ->
        let bs = if ws = [] then [] else split_batches ws in
        top := !top @ [TFrame (List.map (List.map parse_action) bs)]
    | _ -> fail "bad line: %s" l) lines;
  { p_sys = !sys; p_scripts = !scripts; p_wr = !wr; p_xr = !xr; p_ents = !ents; p_top = !top }

(* ---------- printing ---------- *)
let placeholder = 500000 and first_internal = 1000000
let pe (e : n) : string =
  let i = int_of_n e in
  if i >= first_internal then "#" else if i >= placeholder then Printf.sprintf "?%d" (i - placeholder) else string_of_int i
let pn (x : n) = string_of_int (int_of_n x)
let pb b = if b then "1" else "0"
let pocc = function
  | OSys (s, r, i) -> Printf.sprintf "s%s.%s.%s" (pn s) (pn r) (pn i)
  | OTop (o, i) -> Printf.sprintf "t%s.%s" (pn o) (pn i)

let print_sample (sm : sample) : string =
  let b = Buffer.create 64 in
  List.iter (fun (ty, p) -> Buffer.add_string b (Printf.sprintf " b%s=%s" (pn ty) (pn p))) sm.sm_b;
  List.iter (fun ((ty, e), p) -> Buffer.add_string b (Printf.sprintf " e%s=%s:%s" (pn ty) (pe e) (pn p))) sm.sm_e;
  List.iter (fun (ty, p) -> Buffer.add_string b (Printf.sprintf " s%s=%s" (pn ty) (pn p))) sm.sm_s;
  List.iter (fun (c, e) -> Buffer.add_string b (Printf.sprintf " i%s=%s" (pn c) (pe e))) sm.sm_i;
  List.iter (fun (c, e) -> Buffer.add_string b (Printf.sprintf " m%s=%s" (pn c) (pe e))) sm.sm_m;
  List.iter (fun (c, e) -> Buffer.add_string b (Printf.sprintf " r%s=%s" (pn c) (pe e))) sm.sm_r;
  (match sm.sm_d with Some e -> Buffer.add_string b (Printf.sprintf " d=%s" (pe e)) | None -> ());
  (match sm.sm_l with
   | Some (e, Some v) -> Buffer.add_string b (Printf.sprintf " l=%s:%s" (pe e) (pn v))
   | Some (e, None) -> Buffer.add_string b (Printf.sprintf " l=%s:missing" (pe e))
   | None -> ());
  Buffer.contents b

let commas f l = String.concat "," (List.map f l)

let print_ev (ghost : bool) (e : ev) : string option =
  match e with
  | EvMark o -> Some ("mark " ^ pocc o)
  | EvRun (s, r, c, sm) -> Some (Printf.sprintf "run %s %s %s%s" (pe s) (pn r) (pn c) (print_sample sm))
  | EvRet (o, v) -> Some (Printf.sprintf "ret %s %s" (pocc o) (match v with RNone -> "none" | ROk -> "ok" | RVal v -> pn v))
  | EvDrop p -> Some ("drop " ^ pn p)
  | EvDropSys s -> Some ("dropsys " ^ pe s)
  | EvEnter (s, k, i) -> Some (Printf.sprintf "enter %s %s %s" (pe s) (pn k) (pn i))
  | EvPost (s, k) -> Some (Printf.sprintf "post %s %s" (pe s) (pn k))
  | EvAbort (s, k, why) -> Some (Printf.sprintf "abort %s %s %s" (pe s) (pn k)
                                   (match int_of_n why with 0 -> "dead" | 1 -> "nostorage" | _ -> "rootmissing"))
  | EvStart (s, k) -> Some (Printf.sprintf "start %s %s" (pe s) (pn k))
  | EvEnd (s, k, r) -> Some (Printf.sprintf "end %s %s %s" (pe s) (pn k) (pb r))
  | EvDiscard (s, k) -> Some (Printf.sprintf "discard %s %s" (pe s) (pn k))
  | EvExit (s, k) -> Some (Printf.sprintf "exit %s %s" (pe s) (pn k))
  | EvTop (i, sn) ->
      let (evf, evn) = sn.sn_ev and (sef, sen) = sn.sn_se and (erf, ern) = sn.sn_er and ((def, den), deh) = sn.sn_de in
      Some (Printf.sprintf "top %s counter=%s buffered=%s ev=%s,%s se=%s,%s er=%s,%s de=%s,%s,%s systems=%s taken=%s ereactors=%s data=%s tables=%s keys=%s dead=%s alive=%s xlocal=%s"
        (pn i) (pn sn.sn_counter) (pn sn.sn_buffered) (pb evf) (pn evn) (pb sef) (pn sen) (pb erf) (pn ern) (pb def) (pn den) (pb deh)
        (pn sn.sn_systems) (pn sn.sn_taken) (pn sn.sn_ereactors) (pn sn.sn_data)
        (commas pn sn.sn_tables) (commas pn sn.sn_keys) (pn sn.sn_dead)
        (commas string_of_int (List.sort compare (List.map int_of_n sn.sn_alive)))
        (commas (fun (x, e) -> Printf.sprintf "%s:%s" (pn x) (pe e))
           (List.sort (fun (a, b) (c, d) -> compare (int_of_n a, int_of_n b) (int_of_n c, int_of_n d)) sn.sn_xlocal)))
  | EvSetup k -> if ghost then Some ("ghost setup " ^ pn k) else None
  | EvCleanup k -> if ghost then Some ("ghost cleanup " ^ pn k) else None
  | EvTrigger (kind, key, e, ts) ->
      if ghost then Some (Printf.sprintf "ghost trigger %s %s %s [%s]" (pn kind) (pn key) (pe e) (commas pe ts)) else None
  | EvGone e -> if ghost then Some ("ghost gone " ^ pe e) else None

let fuel = nat_of_int 200000

let run_lines (ghost : bool) (lines : string list) (out : out_channel) =
  let p = parse_program lines in
  (match run p fuel with
   | Ok w -> List.iter (fun e -> match print_ev ghost e with Some s -> output_string out s; output_char out '\n' | None -> ()) w.log
   | OutOfFuel -> output_string out "outoffuel\n"
   | Stuck why -> output_string out (Printf.sprintf "panic stuck=%d\n" (int_of_n why)))

let read_lines ic =
  let rec go acc = match input_line ic with l -> go (l :: acc) | exception End_of_file -> List.rev acc in go []

(* ---------- C10: auto-despawn op sequences ---------- *)
let parse_aop (s : string) : aop =
  match String.split_on_char ':' s with
  | ["sp"; e] -> OSpawn (ni e) | ["pr"; g; e] -> OPrepare (ni g, ni e) | ["cl"; g] -> OClone (ni g)
  | ["db"; g] -> ODropBegin (ni g) | ["de"; g] -> ODropEnd (ni g) | ["gc"] -> OGc
  | ["ds"; e] -> ODespawn (ni e) | ["dr"; e] -> ODespawnRec (ni e) | ["par"; e; p] -> OSetParent (ni e, ni p)
  | _ -> fail "bad op %s" s

let run_c10 (lines : string list) (out : out_channel) =
  List.iter (fun l ->
    let ops = List.map parse_aop (words l) in
    let tr = ad_trace ops ad_init in
    output_string out (String.concat " | " (List.map (fun al -> String.concat "," (List.map string_of_int (List.sort compare (List.map int_of_n al)))) tr));
    output_char out '\n') lines

(* ---------- C17: syscall call trees ---------- *)
let parse_c17_line (l : string) : call list =
  let nodes = Hashtbl.create 16 in
  let top = ref [] in
  List.iter (fun w ->
    match String.index_opt w '=' with
    | None -> fail "bad node %s" w
    | Some i ->
        let k = String.sub w 0 i and v = String.sub w (i + 1) (String.length w - i - 1) in
        if k = "top" then top := (if v = "" then [] else List.map int_of_string (String.split_on_char ',' v))
        else Hashtbl.replace nodes (int_of_string k) v) (words l);
  let kids s = if s = "" then [] else List.map int_of_string (String.split_on_char ',' s) in
  let rec build (id : int) : call =
    match String.split_on_char ':' (Hashtbl.find nodes id) with
    | ["sc"; t; v; ch] -> KSys (n_of_int id, ni t, ni v, List.map build (kids ch))
    | ["nm"; name; t; v; ch] -> KNamed (n_of_int id, ni name, ni t, ni v, List.map build (kids ch))
    | ["nd"; name; t; v; ch] -> KNamedDirect (n_of_int id, ni name, ni t, ni v, List.map build (kids ch))
    | ["sy"; sid; v; ch] -> KSpawned (n_of_int id, ni sid, ni v, List.map build (kids ch))
    | ["sp"; sid; t] -> KSpawn (n_of_int id, ni sid, ni t)
    | ["ds"; sid] -> KDespawn (n_of_int id, ni sid)
    | _ -> fail "bad node %d" id in
  List.map build !top

let pkey = function
  | SkSys t -> Printf.sprintf "sys%s" (pn t) | SkNamed (n, t) -> Printf.sprintf "named%s.%s" (pn n) (pn t) | SkSpawned s -> Printf.sprintf "spawned%s" (pn s)
let run_c17 (lines : string list) (out : out_channel) =
  List.iter (fun l ->
    let cs = parse_c17_line l in
    let lg = run_case (nat_of_int 100000) cs in
    output_string out (String.concat " | " (List.map (function
      | SBody (id, k, t, v, local) -> Printf.sprintf "body %s %s t%s v%s l%s" (pn id) (pkey k) (pn t) (pn v) (pn local)
      | SRet (id, Some o) -> Printf.sprintf "ret %s %s" (pn id) (pn o)
      | SRet (id, None) -> Printf.sprintf "ret %s err" (pn id)) lg));
    output_char out '\n') lines

let () =
  let args = List.tl (Array.to_list Sys.argv) in
  match args with
  | ["-c17"; f] ->
      let ic = open_in f in let lines = read_lines ic in close_in ic;
      let oc = open_out (f ^ ".model.log") in run_c17 lines oc; close_out oc
  | ["-c10"; f] ->
      let ic = open_in f in let lines = read_lines ic in close_in ic;
      let oc = open_out (f ^ ".model.log") in run_c10 lines oc; close_out oc
  | _ ->
  let ghost, args = match args with "-ghost" :: r -> true, r | r -> false, r in
  match args with
  | ["-"] -> run_lines ghost (read_lines stdin) stdout
  | files ->
      List.iter (fun f ->
        let ic = open_in f in
        let lines = read_lines ic in
        close_in ic;
        let oc = open_out (f ^ ".model.log") in
        (try run_lines ghost lines oc with Failure m -> output_string oc ("driver-error " ^ m ^ "\n"));
        close_out oc) files
